(** * MetaProofs: the metadata records survive the trip through the thrift
    compact protocol, and byte strings produced by the real library
    (apache/thrift v0.18.1 through /repo/schema/parquet.go) agree with the
    model in both directions. *)
From Coq Require Import List NArith ZArith Lia Bool.
From Coq Require Import ZifyN ZifyNat ZifyBool.
From PQ Require Import Bytes Varint Thrift ThriftProofs MetaTypes Meta.
Import ListNotations.
Local Open Scope N_scope.

(** ** Field lists built by [mk_fields] *)

Fixpoint alookup (id : N) (l : list (N * option tval)) : option tval :=
  match l with
  | [] => None
  | (i, ov) :: r => if i =? id then ov else alookup id r
  end.

(** ids strictly increasing from [last], at most 32767 *)
Fixpoint ids_inc (last : N) (l : list (N * option tval)) : bool :=
  match l with
  | [] => true
  | (i, _) :: r => (last <? i) && (i <=? max_field_id) && ids_inc i r
  end.

Lemma ids_inc_cons last i ov r :
  ids_inc last ((i, ov) :: r) = true -> last < i /\ i <= max_field_id /\ ids_inc i r = true.
Proof.
  cbn [ids_inc]. intros H.
  apply andb_prop in H. destruct H as [H Hr].
  apply andb_prop in H. destruct H as [Hlt Hmax].
  apply N.ltb_lt in Hlt. apply N.leb_le in Hmax. auto.
Qed.

Lemma fget_mk_none l : forall last id,
  ids_inc last l = true -> id <= last -> fget id (mk_fields l) = None.
Proof.
  induction l as [|[i ov] r IH]; intros last id Hinc Hid; [reflexivity|].
  apply ids_inc_cons in Hinc. destruct Hinc as (Hlt & _ & Hr).
  assert (Hrest : fget id (mk_fields r) = None) by (apply (IH i); [exact Hr | lia]).
  destruct ov as [v|]; cbn [mk_fields fget]; [|exact Hrest].
  rewrite Hrest. destruct (N.eqb_spec i id) as [He|_]; [lia | reflexivity].
Qed.

Lemma fget_mk l : forall last id,
  ids_inc last l = true -> fget id (mk_fields l) = alookup id l.
Proof.
  induction l as [|[i ov] r IH]; intros last id Hinc; [reflexivity|].
  apply ids_inc_cons in Hinc. destruct Hinc as (Hlt & _ & Hr).
  cbn [alookup]. destruct (N.eqb_spec i id) as [He|Hne].
  - subst i.
    assert (Hrest : fget id (mk_fields r) = None) by (apply (fget_mk_none r id); [exact Hr | lia]).
    destruct ov as [v|]; cbn [mk_fields fget]; [|exact Hrest].
    rewrite Hrest, N.eqb_refl. reflexivity.
  - specialize (IH i id Hr).
    destruct ov as [v|]; cbn [mk_fields fget]; [|exact IH].
    rewrite IH. destruct (alookup id r) as [w|]; [reflexivity|].
    destruct (N.eqb_spec i id) as [He|_]; [contradiction | reflexivity].
Qed.

Lemma req_mk {A} (conv : tval -> option A) id l v a :
  ids_inc 0 l = true -> alookup id l = Some v -> conv v = Some a ->
  req conv id (mk_fields l) = Some a.
Proof.
  intros Hinc Hl Hc. unfold req. rewrite (fget_mk l 0 id Hinc), Hl. exact Hc.
Qed.

Lemma opt_mk {A} (conv : tval -> option A) (f : A -> tval) id l o :
  ids_inc 0 l = true -> alookup id l = option_map f o ->
  (forall a, conv (f a) = Some a) ->
  opt conv id (mk_fields l) = Some o.
Proof.
  intros Hinc Hl Hc. unfold opt. rewrite (fget_mk l 0 id Hinc), Hl.
  destruct o as [a|]; cbn [option_map]; [|reflexivity].
  rewrite Hc. reflexivity.
Qed.

Lemma map_opt_map {A} (conv : tval -> option A) (f : A -> tval) l :
  (forall a, conv (f a) = Some a) -> map_opt conv (map f l) = Some l.
Proof.
  intros Hc. induction l as [|x r IH]; cbn [map map_opt]; [reflexivity|].
  rewrite Hc, IH. reflexivity.
Qed.

Lemma as_list_map {A} (conv : tval -> option A) (f : A -> tval) elt l :
  (forall a, conv (f a) = Some a) -> as_list conv (t_list elt f l) = Some l.
Proof. intros Hc. unfold as_list, t_list. apply map_opt_map. exact Hc. Qed.

(** ** Well-formedness of field lists built by [mk_fields] *)

Definition ofield_wf (p : N * option tval) : Prop :=
  match snd p with Some v => wf_tval v = true | None => True end.

Lemma wf_fields_from_mono fs last last' :
  wf_fields_from last' fs = true -> last <= last' -> wf_fields_from last fs = true.
Proof.
  destruct fs as [|[id x] r]; cbn [wf_fields_from]; [reflexivity|].
  intros H Hle.
  apply andb_prop in H. destruct H as [H Hr].
  apply andb_prop in H. destruct H as [H Hx].
  apply andb_prop in H. destruct H as [Hlt Hmax].
  rewrite Hr, Hx, Hmax. apply N.ltb_lt in Hlt.
  destruct (N.ltb_spec last id) as [_|Hge]; [reflexivity | lia].
Qed.

Lemma wf_mk l : forall last,
  ids_inc last l = true -> Forall ofield_wf l -> wf_fields_from last (mk_fields l) = true.
Proof.
  induction l as [|[i ov] r IH]; intros last Hinc Hall; [reflexivity|].
  apply ids_inc_cons in Hinc. destruct Hinc as (Hlt & Hmax & Hr).
  inversion Hall as [|p q Hp Hq]; subst p q.
  specialize (IH i Hr Hq).
  destruct ov as [v|]; cbn [mk_fields].
  - cbn [wf_fields_from]. unfold ofield_wf in Hp. cbn [snd] in Hp. rewrite Hp, IH.
    apply N.ltb_lt in Hlt. apply N.leb_le in Hmax. rewrite Hlt, Hmax. reflexivity.
  - apply (wf_fields_from_mono _ last i IH). lia.
Qed.

Lemma wf_fields_mk l :
  ids_inc 0 l = true -> Forall ofield_wf l -> wf_fields (mk_fields l) = true.
Proof. intros Hinc Hall. unfold wf_fields. apply wf_mk; assumption. Qed.

Lemma ofield_req id v : wf_tval v = true -> ofield_wf (id, Some v).
Proof. intros H. exact H. Qed.

Lemma ofield_opt {A} id (f : A -> tval) (ok : A -> bool) o :
  opt_ok ok o = true -> (forall a, ok a = true -> wf_tval (f a) = true) ->
  ofield_wf (id, option_map f o).
Proof.
  intros Ho Hf. unfold ofield_wf. destruct o as [a|]; cbn [snd option_map]; [|exact I].
  apply Hf. exact Ho.
Qed.

Lemma ofield_opt_true {A} id (f : A -> tval) o :
  (forall a, wf_tval (f a) = true) -> ofield_wf (id, option_map f o).
Proof.
  intros Hf. unfold ofield_wf. destruct o as [a|]; cbn [snd option_map]; [apply Hf | exact I].
Qed.

Lemma wf_list {A} (ok : A -> bool) (f : A -> tval) elt l :
  list_ok ok l = true ->
  (forall a, ok a = true -> wf_tval (f a) = true) ->
  (forall a, elt_matches elt (f a) = true) ->
  (1 <=? elt) && (elt <=? 12) = true ->
  wf_tval (t_list elt f l) = true.
Proof.
  intros Hl Hf Hm He. unfold t_list. rewrite wf_tval_list, He.
  unfold list_ok in Hl. apply andb_prop in Hl. destruct Hl as [Hlen Hall].
  unfold nlen in Hlen |- *. rewrite map_length, Hlen. cbn [andb].
  rewrite forallb_forall in Hall |- *. intros x Hx.
  apply in_map_iff in Hx. destruct Hx as (a & Ha & Hin). subst x.
  rewrite Hm, Hf by (apply Hall; exact Hin). reflexivity.
Qed.

Lemma wf_struct fs : wf_fields fs = true -> wf_tval (TStruct fs) = true.
Proof. intros H. rewrite wf_tval_struct. exact H. Qed.

(** ** Tactics for the per-record lemmas *)

Create HintDb meta_rt.
Create HintDb meta_wf.

Ltac split_andb :=
  repeat match goal with
         | H : (_ && _) = true |- _ => apply andb_prop in H; destruct H
         end.

(** side condition [conv (f a) = Some a] (possibly under [forall a]) *)
Ltac rt_side :=
  intros; cbv beta; unfold t_key_values, t_statistics;
  first [ solve [auto with meta_rt nocore]
        | reflexivity
        | apply as_list_map; intros; cbv beta;
          first [ solve [auto with meta_rt nocore] | reflexivity ] ].

Ltac rt_step :=
  first [ erewrite req_mk; [ | reflexivity | reflexivity | rt_side ]
        | erewrite opt_mk; [ | reflexivity | reflexivity | rt_side ] ].

(** goal [wf_tval v = true] from the range hypotheses in the context *)
Ltac wf_val :=
  cbv beta; unfold t_key_values, t_statistics;
  first [ assumption
        | solve [auto with meta_wf nocore]
        | eapply wf_list;
          [ eassumption
          | let a := fresh "a" in let Ha := fresh "Ha" in intros a Ha; wf_val
          | intro; reflexivity
          | reflexivity ] ].

Ltac wf_field :=
  unfold t_i32, t_i64, t_bin;
  first [ apply ofield_req; wf_val
        | eapply ofield_opt;
          [ eassumption
          | let a := fresh "a" in let Ha := fresh "Ha" in intros a Ha; wf_val ]
        | apply ofield_opt_true; intro; reflexivity ].

Ltac wf_record :=
  apply wf_fields_mk; [reflexivity|];
  repeat (apply Forall_cons; [wf_field|]); apply Forall_nil.

(** ** Statistics *)

Lemma statistics_rt s : statistics_of_fields (statistics_to_fields s) = Some s.
Proof.
  unfold statistics_of_fields, statistics_to_fields. repeat rt_step.
  destruct s; reflexivity.
Qed.

Lemma statistics_conv s : as_struct statistics_of_fields (TStruct (statistics_to_fields s)) = Some s.
Proof. exact (statistics_rt s). Qed.
#[local] Hint Resolve statistics_conv : meta_rt.

Lemma statistics_wf s : statistics_ok s = true -> wf_fields (statistics_to_fields s) = true.
Proof.
  intros H. unfold statistics_ok in H. split_andb.
  unfold statistics_to_fields. wf_record.
Qed.

Lemma statistics_wfv s : statistics_ok s = true -> wf_tval (TStruct (statistics_to_fields s)) = true.
Proof. intros H. apply wf_struct, statistics_wf, H. Qed.
#[local] Hint Resolve statistics_wfv : meta_wf.

(** ** DataPageHeader *)

Lemma data_page_header_rt d :
  data_page_header_of_fields (data_page_header_to_fields d) = Some d.
Proof.
  unfold data_page_header_of_fields, data_page_header_to_fields. repeat rt_step.
  destruct d; reflexivity.
Qed.

Lemma data_page_header_conv d :
  as_struct data_page_header_of_fields (TStruct (data_page_header_to_fields d)) = Some d.
Proof. exact (data_page_header_rt d). Qed.
#[local] Hint Resolve data_page_header_conv : meta_rt.

Lemma data_page_header_wf d :
  data_page_header_ok d = true -> wf_fields (data_page_header_to_fields d) = true.
Proof.
  intros H. unfold data_page_header_ok in H. split_andb.
  unfold data_page_header_to_fields. wf_record.
Qed.

Lemma data_page_header_wfv d :
  data_page_header_ok d = true -> wf_tval (TStruct (data_page_header_to_fields d)) = true.
Proof. intros H. apply wf_struct, data_page_header_wf, H. Qed.
#[local] Hint Resolve data_page_header_wfv : meta_wf.

(** ** DictionaryPageHeader *)

Lemma dictionary_page_header_rt d :
  dictionary_page_header_of_fields (dictionary_page_header_to_fields d) = Some d.
Proof.
  unfold dictionary_page_header_of_fields, dictionary_page_header_to_fields. repeat rt_step.
  destruct d; reflexivity.
Qed.

Lemma dictionary_page_header_conv d :
  as_struct dictionary_page_header_of_fields (TStruct (dictionary_page_header_to_fields d)) = Some d.
Proof. exact (dictionary_page_header_rt d). Qed.
#[local] Hint Resolve dictionary_page_header_conv : meta_rt.

Lemma dictionary_page_header_wf d :
  dictionary_page_header_ok d = true -> wf_fields (dictionary_page_header_to_fields d) = true.
Proof.
  intros H. unfold dictionary_page_header_ok in H. split_andb.
  unfold dictionary_page_header_to_fields. wf_record.
Qed.

Lemma dictionary_page_header_wfv d :
  dictionary_page_header_ok d = true ->
  wf_tval (TStruct (dictionary_page_header_to_fields d)) = true.
Proof. intros H. apply wf_struct, dictionary_page_header_wf, H. Qed.
#[local] Hint Resolve dictionary_page_header_wfv : meta_wf.

(** ** DataPageHeaderV2 *)

Lemma data_page_header_v2_rt d :
  data_page_header_v2_of_fields (data_page_header_v2_to_fields d) = Some d.
Proof.
  unfold data_page_header_v2_of_fields, data_page_header_v2_to_fields. repeat rt_step.
  destruct d; reflexivity.
Qed.

Lemma data_page_header_v2_conv d :
  as_struct data_page_header_v2_of_fields (TStruct (data_page_header_v2_to_fields d)) = Some d.
Proof. exact (data_page_header_v2_rt d). Qed.
#[local] Hint Resolve data_page_header_v2_conv : meta_rt.

Lemma data_page_header_v2_wf d :
  data_page_header_v2_ok d = true -> wf_fields (data_page_header_v2_to_fields d) = true.
Proof.
  intros H. unfold data_page_header_v2_ok in H. split_andb.
  unfold data_page_header_v2_to_fields. wf_record.
Qed.

Lemma data_page_header_v2_wfv d :
  data_page_header_v2_ok d = true ->
  wf_tval (TStruct (data_page_header_v2_to_fields d)) = true.
Proof. intros H. apply wf_struct, data_page_header_v2_wf, H. Qed.
#[local] Hint Resolve data_page_header_v2_wfv : meta_wf.

(** ** IndexPageHeader *)

Lemma index_page_header_conv u :
  as_struct index_page_header_of_fields (TStruct (index_page_header_to_fields u)) = Some u.
Proof. destruct u. reflexivity. Qed.
#[local] Hint Resolve index_page_header_conv : meta_rt.

(** ** PageHeader *)

Lemma page_header_rt p : page_header_of_fields (page_header_to_fields p) = Some p.
Proof.
  unfold page_header_of_fields, page_header_to_fields. repeat rt_step.
  destruct p; reflexivity.
Qed.

Lemma page_header_wf p : page_header_ok p = true -> wf_fields (page_header_to_fields p) = true.
Proof.
  intros H. unfold page_header_ok in H. split_andb.
  unfold page_header_to_fields. wf_record.
Qed.

(** ** SchemaElement *)

Lemma schema_element_rt s : schema_element_of_fields (schema_element_to_fields s) = Some s.
Proof.
  unfold schema_element_of_fields, schema_element_to_fields. repeat rt_step.
  destruct s; reflexivity.
Qed.

Lemma schema_element_conv s :
  as_struct schema_element_of_fields (TStruct (schema_element_to_fields s)) = Some s.
Proof. exact (schema_element_rt s). Qed.
#[local] Hint Resolve schema_element_conv : meta_rt.

Lemma schema_element_wf s :
  schema_element_ok s = true -> wf_fields (schema_element_to_fields s) = true.
Proof.
  intros H. unfold schema_element_ok in H. split_andb.
  unfold schema_element_to_fields. wf_record.
Qed.

Lemma schema_element_wfv s :
  schema_element_ok s = true -> wf_tval (TStruct (schema_element_to_fields s)) = true.
Proof. intros H. apply wf_struct, schema_element_wf, H. Qed.
#[local] Hint Resolve schema_element_wfv : meta_wf.

(** ** KeyValue *)

Lemma key_value_rt k : key_value_of_fields (key_value_to_fields k) = Some k.
Proof.
  unfold key_value_of_fields, key_value_to_fields. repeat rt_step.
  destruct k; reflexivity.
Qed.

Lemma key_value_conv k :
  as_struct key_value_of_fields (TStruct (key_value_to_fields k)) = Some k.
Proof. exact (key_value_rt k). Qed.
#[local] Hint Resolve key_value_conv : meta_rt.

Lemma key_value_wf k : key_value_ok k = true -> wf_fields (key_value_to_fields k) = true.
Proof.
  intros H. unfold key_value_ok in H. split_andb.
  unfold key_value_to_fields. wf_record.
Qed.

Lemma key_value_wfv k :
  key_value_ok k = true -> wf_tval (TStruct (key_value_to_fields k)) = true.
Proof. intros H. apply wf_struct, key_value_wf, H. Qed.
#[local] Hint Resolve key_value_wfv : meta_wf.

(** ** PageEncodingStats *)

Lemma page_encoding_stats_rt p :
  page_encoding_stats_of_fields (page_encoding_stats_to_fields p) = Some p.
Proof.
  unfold page_encoding_stats_of_fields, page_encoding_stats_to_fields. repeat rt_step.
  destruct p; reflexivity.
Qed.

Lemma page_encoding_stats_conv p :
  as_struct page_encoding_stats_of_fields (TStruct (page_encoding_stats_to_fields p)) = Some p.
Proof. exact (page_encoding_stats_rt p). Qed.
#[local] Hint Resolve page_encoding_stats_conv : meta_rt.

Lemma page_encoding_stats_wf p :
  page_encoding_stats_ok p = true -> wf_fields (page_encoding_stats_to_fields p) = true.
Proof.
  intros H. unfold page_encoding_stats_ok in H. split_andb.
  unfold page_encoding_stats_to_fields. wf_record.
Qed.

Lemma page_encoding_stats_wfv p :
  page_encoding_stats_ok p = true ->
  wf_tval (TStruct (page_encoding_stats_to_fields p)) = true.
Proof. intros H. apply wf_struct, page_encoding_stats_wf, H. Qed.
#[local] Hint Resolve page_encoding_stats_wfv : meta_wf.

(** ** ColumnMetaData *)

Lemma column_meta_rt c : column_meta_of_fields (column_meta_to_fields c) = Some c.
Proof.
  unfold column_meta_of_fields, column_meta_to_fields. repeat rt_step.
  destruct c; reflexivity.
Qed.

Lemma column_meta_conv c :
  as_struct column_meta_of_fields (TStruct (column_meta_to_fields c)) = Some c.
Proof. exact (column_meta_rt c). Qed.
#[local] Hint Resolve column_meta_conv : meta_rt.

Lemma column_meta_wf c : column_meta_ok c = true -> wf_fields (column_meta_to_fields c) = true.
Proof.
  intros H. unfold column_meta_ok in H. split_andb.
  unfold column_meta_to_fields. wf_record.
Qed.

Lemma column_meta_wfv c :
  column_meta_ok c = true -> wf_tval (TStruct (column_meta_to_fields c)) = true.
Proof. intros H. apply wf_struct, column_meta_wf, H. Qed.
#[local] Hint Resolve column_meta_wfv : meta_wf.

(** ** ColumnChunk *)

Lemma column_chunk_rt c : column_chunk_of_fields (column_chunk_to_fields c) = Some c.
Proof.
  unfold column_chunk_of_fields, column_chunk_to_fields. repeat rt_step.
  destruct c; reflexivity.
Qed.

Lemma column_chunk_conv c :
  as_struct column_chunk_of_fields (TStruct (column_chunk_to_fields c)) = Some c.
Proof. exact (column_chunk_rt c). Qed.
#[local] Hint Resolve column_chunk_conv : meta_rt.

Lemma column_chunk_wf c : column_chunk_ok c = true -> wf_fields (column_chunk_to_fields c) = true.
Proof.
  intros H. unfold column_chunk_ok in H. split_andb.
  unfold column_chunk_to_fields. wf_record.
Qed.

Lemma column_chunk_wfv c :
  column_chunk_ok c = true -> wf_tval (TStruct (column_chunk_to_fields c)) = true.
Proof. intros H. apply wf_struct, column_chunk_wf, H. Qed.
#[local] Hint Resolve column_chunk_wfv : meta_wf.

(** ** RowGroup *)

Lemma row_group_rt r : row_group_of_fields (row_group_to_fields r) = Some r.
Proof.
  unfold row_group_of_fields, row_group_to_fields. repeat rt_step.
  destruct r; reflexivity.
Qed.

Lemma row_group_conv r :
  as_struct row_group_of_fields (TStruct (row_group_to_fields r)) = Some r.
Proof. exact (row_group_rt r). Qed.
#[local] Hint Resolve row_group_conv : meta_rt.

Lemma row_group_wf r : row_group_ok r = true -> wf_fields (row_group_to_fields r) = true.
Proof.
  intros H. unfold row_group_ok in H. split_andb.
  unfold row_group_to_fields. wf_record.
Qed.

Lemma row_group_wfv r :
  row_group_ok r = true -> wf_tval (TStruct (row_group_to_fields r)) = true.
Proof. intros H. apply wf_struct, row_group_wf, H. Qed.
#[local] Hint Resolve row_group_wfv : meta_wf.

(** ** FileMetaData *)

Lemma file_meta_rt m : file_meta_of_fields (file_meta_to_fields m) = Some m.
Proof.
  unfold file_meta_of_fields, file_meta_to_fields. repeat rt_step.
  destruct m; reflexivity.
Qed.

Lemma file_meta_wf m : file_meta_ok m = true -> wf_fields (file_meta_to_fields m) = true.
Proof.
  intros H. unfold file_meta_ok in H. split_andb.
  unfold file_meta_to_fields. wf_record.
Qed.

(** ** Entry points *)

Theorem dec_enc_page_header ph rest :
  page_header_ok ph = true ->
  dec_page_header (enc_page_header ph ++ rest) = Some (ph, rest).
Proof.
  intros H. unfold dec_page_header, enc_page_header.
  rewrite tdec_tenc_default by (apply page_header_wf; exact H).
  rewrite page_header_rt. reflexivity.
Qed.

Theorem enc_page_header_wf_bytes ph :
  page_header_ok ph = true -> wf_bytes (enc_page_header ph).
Proof.
  intros H. unfold enc_page_header. apply tenc_struct_wf_bytes, page_header_wf, H.
Qed.

Theorem dec_enc_file_meta fm rest :
  file_meta_ok fm = true ->
  dec_file_meta (enc_file_meta fm ++ rest) = Some (fm, rest).
Proof.
  intros H. unfold dec_file_meta, enc_file_meta.
  rewrite tdec_tenc_default by (apply file_meta_wf; exact H).
  rewrite file_meta_rt. reflexivity.
Qed.

Theorem enc_file_meta_wf_bytes fm :
  file_meta_ok fm = true -> wf_bytes (enc_file_meta fm).
Proof.
  intros H. unfold enc_file_meta. apply tenc_struct_wf_bytes, file_meta_wf, H.
Qed.

(** ** Byte strings produced by the library

    Every [*_bytes] constant below is the output of the real library
    ([thrift.NewTSerializer] with [thrift.NewTCompactProtocolFactory], exactly
    as /repo/parquet.go sets it up, apache/thrift v0.18.1, on a
    [sch.PageHeader] / [sch.FileMetaData] value of /repo/schema) for the Go
    value that the record above it transcribes.  The model encoder produces the
    same bytes and the model decoder reads them back. *)

Local Open Scope Z_scope.

(** DATA_PAGE; extreme i32s; crc -1; statistics with null_count, an empty but non nil
    max_value and a min_value with bytes >= 0x80 *)
Definition ex_ph2 : page_header :=
  {| ph_type := 0; ph_uncompressed_size := 2147483647; ph_compressed_size := (-2147483648);
  ph_crc := (Some (-1)); ph_data := (Some {| dph_num_values := 300; dph_encoding := 2;
  dph_def_encoding := 3; dph_rep_encoding := 4; dph_statistics := (Some {| st_max := None;
  st_min := None; st_null_count := (Some 3); st_distinct_count := None; st_max_value := (Some
  []%N); st_min_value := (Some [0; 255; 128; 1]%N) |}) |}); ph_index := None; ph_dict := None;
  ph_data_v2 := None |}.
Definition ex_ph2_bytes : bytes :=
  [21; 0; 21; 254; 255; 255; 255; 15; 21; 255; 255; 255; 255; 15; 21; 1; 28; 21; 216; 4; 21; 4;
  21; 6; 21; 8; 28; 54; 6; 40; 0; 24; 4; 0; 255; 128; 1; 0; 0; 0]%N.
Example ex_ph2_enc : enc_page_header ex_ph2 = ex_ph2_bytes.
Proof. vm_compute. reflexivity. Qed.
Example ex_ph2_dec : dec_page_header (ex_ph2_bytes ++ [7; 7]%N) = Some (ex_ph2, [7; 7]%N).
Proof. vm_compute. reflexivity. Qed.
Example ex_ph2_ok : page_header_ok ex_ph2 = true.
Proof. vm_compute. reflexivity. Qed.

(** statistics with only min_value (field 6 first: delta 6) *)
Definition ex_ph3 : page_header :=
  {| ph_type := 0; ph_uncompressed_size := 0; ph_compressed_size := 0; ph_crc := None; ph_data
  := (Some {| dph_num_values := 0; dph_encoding := 0; dph_def_encoding := 0; dph_rep_encoding :=
  0; dph_statistics := (Some {| st_max := None; st_min := None; st_null_count := None;
  st_distinct_count := None; st_max_value := None; st_min_value := (Some [97]%N) |}) |});
  ph_index := None; ph_dict := None; ph_data_v2 := None |}.
Definition ex_ph3_bytes : bytes :=
  [21; 0; 21; 0; 21; 0; 44; 21; 0; 21; 0; 21; 0; 21; 0; 28; 104; 1; 97; 0; 0; 0]%N.
Example ex_ph3_enc : enc_page_header ex_ph3 = ex_ph3_bytes.
Proof. vm_compute. reflexivity. Qed.
Example ex_ph3_dec : dec_page_header (ex_ph3_bytes ++ [7; 7]%N) = Some (ex_ph3, [7; 7]%N).
Proof. vm_compute. reflexivity. Qed.
Example ex_ph3_ok : page_header_ok ex_ph3 = true.
Proof. vm_compute. reflexivity. Qed.

(** DICTIONARY_PAGE, negative num_values, is_sorted = true (folded into the field header) *)
Definition ex_ph7 : page_header :=
  {| ph_type := 2; ph_uncompressed_size := 4096; ph_compressed_size := 1000; ph_crc := None;
  ph_data := None; ph_index := None; ph_dict := (Some {| dict_num_values := (-5); dict_encoding
  := 2; dict_is_sorted := (Some true) |}); ph_data_v2 := None |}.
Definition ex_ph7_bytes : bytes :=
  [21; 4; 21; 128; 64; 21; 208; 15; 76; 21; 9; 21; 4; 17; 0; 0]%N.
Example ex_ph7_enc : enc_page_header ex_ph7 = ex_ph7_bytes.
Proof. vm_compute. reflexivity. Qed.
Example ex_ph7_dec : dec_page_header (ex_ph7_bytes ++ [7; 7]%N) = Some (ex_ph7, [7; 7]%N).
Proof. vm_compute. reflexivity. Qed.
Example ex_ph7_ok : page_header_ok ex_ph7 = true.
Proof. vm_compute. reflexivity. Qed.

(** DICTIONARY_PAGE with crc 0 and is_sorted = false *)
Definition ex_ph8 : page_header :=
  {| ph_type := 2; ph_uncompressed_size := 4096; ph_compressed_size := 1000; ph_crc := (Some 0);
  ph_data := None; ph_index := None; ph_dict := (Some {| dict_num_values := 1073741824;
  dict_encoding := 2; dict_is_sorted := (Some false) |}); ph_data_v2 := None |}.
Definition ex_ph8_bytes : bytes :=
  [21; 4; 21; 128; 64; 21; 208; 15; 21; 0; 60; 21; 128; 128; 128; 128; 8; 21; 4; 18; 0; 0]%N.
Example ex_ph8_enc : enc_page_header ex_ph8 = ex_ph8_bytes.
Proof. vm_compute. reflexivity. Qed.
Example ex_ph8_dec : dec_page_header (ex_ph8_bytes ++ [7; 7]%N) = Some (ex_ph8, [7; 7]%N).
Proof. vm_compute. reflexivity. Qed.
Example ex_ph8_ok : page_header_ok ex_ph8 = true.
Proof. vm_compute. reflexivity. Qed.

(** INDEX_PAGE with the empty IndexPageHeader *)
Definition ex_ph9 : page_header :=
  {| ph_type := 1; ph_uncompressed_size := 5; ph_compressed_size := 5; ph_crc := None; ph_data
  := None; ph_index := (Some tt); ph_dict := None; ph_data_v2 := None |}.
Definition ex_ph9_bytes : bytes :=
  [21; 2; 21; 10; 21; 10; 60; 0; 0]%N.
Example ex_ph9_enc : enc_page_header ex_ph9 = ex_ph9_bytes.
Proof. vm_compute. reflexivity. Qed.
Example ex_ph9_dec : dec_page_header (ex_ph9_bytes ++ [7; 7]%N) = Some (ex_ph9, [7; 7]%N).
Proof. vm_compute. reflexivity. Qed.
Example ex_ph9_ok : page_header_ok ex_ph9 = true.
Proof. vm_compute. reflexivity. Qed.

(** DATA_PAGE_V2, IsCompressed = true (the default, not written), statistics with UTF-8 bytes *)
Definition ex_ph10 : page_header :=
  {| ph_type := 3; ph_uncompressed_size := 123456; ph_compressed_size := 65432; ph_crc := None;
  ph_data := None; ph_index := None; ph_dict := None; ph_data_v2 := (Some {| v2_num_values :=
  1000; v2_num_nulls := 10; v2_num_rows := 990; v2_encoding := 8; v2_def_len := 40; v2_rep_len
  := 0; v2_is_compressed := None; v2_statistics := (Some {| st_max := None; st_min := None;
  st_null_count := (Some 10); st_distinct_count := None; st_max_value := (Some [122; 122; 195;
  169]%N); st_min_value := (Some []%N) |}) |}) |}.
Definition ex_ph10_bytes : bytes :=
  [21; 6; 21; 128; 137; 15; 21; 176; 254; 7; 92; 21; 208; 15; 21; 20; 21; 188; 15; 21; 16; 21;
  80; 21; 0; 44; 54; 20; 40; 4; 122; 122; 195; 169; 24; 0; 0; 0; 0]%N.
Example ex_ph10_enc : enc_page_header ex_ph10 = ex_ph10_bytes.
Proof. vm_compute. reflexivity. Qed.
Example ex_ph10_dec : dec_page_header (ex_ph10_bytes ++ [7; 7]%N) = Some (ex_ph10, [7; 7]%N).
Proof. vm_compute. reflexivity. Qed.
Example ex_ph10_ok : page_header_ok ex_ph10 = true.
Proof. vm_compute. reflexivity. Qed.

(** DATA_PAGE_V2, IsCompressed = false (written), varint boundaries 16383 / 16384 *)
Definition ex_ph11 : page_header :=
  {| ph_type := 3; ph_uncompressed_size := 1; ph_compressed_size := 2; ph_crc := None; ph_data
  := None; ph_index := None; ph_dict := None; ph_data_v2 := (Some {| v2_num_values := (-1);
  v2_num_nulls := (-64); v2_num_rows := 64; v2_encoding := 0; v2_def_len := 16383; v2_rep_len :=
  16384; v2_is_compressed := (Some false); v2_statistics := None |}) |}.
Definition ex_ph11_bytes : bytes :=
  [21; 6; 21; 2; 21; 4; 92; 21; 1; 21; 127; 21; 128; 1; 21; 0; 21; 254; 255; 1; 21; 128; 128; 2;
  18; 0; 0]%N.
Example ex_ph11_enc : enc_page_header ex_ph11 = ex_ph11_bytes.
Proof. vm_compute. reflexivity. Qed.
Example ex_ph11_dec : dec_page_header (ex_ph11_bytes ++ [7; 7]%N) = Some (ex_ph11, [7; 7]%N).
Proof. vm_compute. reflexivity. Qed.
Example ex_ph11_ok : page_header_ok ex_ph11 = true.
Proof. vm_compute. reflexivity. Qed.

(** all four sub headers at once *)
Definition ex_ph12 : page_header :=
  {| ph_type := 3; ph_uncompressed_size := (-1); ph_compressed_size := (-2); ph_crc := (Some
  (-2147483648)); ph_data := (Some {| dph_num_values := 1; dph_encoding := 2; dph_def_encoding
  := 3; dph_rep_encoding := 4; dph_statistics := (Some {| st_max := None; st_min := (Some
  [9]%N); st_null_count := None; st_distinct_count := None; st_max_value := None; st_min_value
  := None |}) |}); ph_index := (Some tt); ph_dict := (Some {| dict_num_values := 2;
  dict_encoding := 2; dict_is_sorted := (Some true) |}); ph_data_v2 := (Some {| v2_num_values :=
  1; v2_num_nulls := 2; v2_num_rows := 3; v2_encoding := 4; v2_def_len := 5; v2_rep_len := 6;
  v2_is_compressed := (Some false); v2_statistics := (Some {| st_max := None; st_min := None;
  st_null_count := None; st_distinct_count := (Some 1); st_max_value := None; st_min_value :=
  None |}) |}) |}.
Definition ex_ph12_bytes : bytes :=
  [21; 6; 21; 1; 21; 3; 21; 255; 255; 255; 255; 15; 28; 21; 2; 21; 4; 21; 6; 21; 8; 28; 40; 1;
  9; 0; 0; 28; 0; 28; 21; 4; 21; 4; 17; 0; 28; 21; 2; 21; 4; 21; 6; 21; 8; 21; 10; 21; 12; 18;
  28; 70; 2; 0; 0; 0]%N.
Example ex_ph12_enc : enc_page_header ex_ph12 = ex_ph12_bytes.
Proof. vm_compute. reflexivity. Qed.
Example ex_ph12_dec : dec_page_header (ex_ph12_bytes ++ [7; 7]%N) = Some (ex_ph12, [7; 7]%N).
Proof. vm_compute. reflexivity. Qed.
Example ex_ph12_ok : page_header_ok ex_ph12 = true.
Proof. vm_compute. reflexivity. Qed.

(** nil schema / row_groups: required lists are written empty *)
Definition ex_fm14 : file_meta :=
  {| fm_version := (-1); fm_schema := []; fm_num_rows := (-1); fm_row_groups := []; fm_key_value
  := None; fm_created_by := None |}.
Definition ex_fm14_bytes : bytes :=
  [21; 1; 25; 12; 22; 1; 25; 12; 0]%N.
Example ex_fm14_enc : enc_file_meta ex_fm14 = ex_fm14_bytes.
Proof. vm_compute. reflexivity. Qed.
Example ex_fm14_dec : dec_file_meta (ex_fm14_bytes ++ [7; 7]%N) = Some (ex_fm14, [7; 7]%N).
Proof. vm_compute. reflexivity. Qed.
Example ex_fm14_ok : file_meta_ok ex_fm14 = true.
Proof. vm_compute. reflexivity. Qed.

(** a typical small file: 4 schema elements (one with every optional field, names with
    bytes >= 0x80 and the empty name), one row group of two columns, created_by *)
Definition ex_fm15 : file_meta :=
  {| fm_version := 1; fm_schema := [{| se_type := None; se_type_length := None; se_repetition :=
  None; se_name := [114; 111; 111; 116]%N; se_num_children := (Some 3); se_converted := None;
  se_scale := None; se_precision := None; se_field_id := None |}; {| se_type := (Some 2);
  se_type_length := None; se_repetition := (Some 0); se_name := [105; 100]%N; se_num_children :=
  None; se_converted := None; se_scale := None; se_precision := None; se_field_id := None |}; {|
  se_type := (Some 6); se_type_length := None; se_repetition := (Some 1); se_name := [110; 195;
  164; 109; 101; 255]%N; se_num_children := None; se_converted := (Some 0); se_scale := None;
  se_precision := None; se_field_id := None |}; {| se_type := (Some 7); se_type_length := (Some
  16); se_repetition := (Some 2); se_name := []%N; se_num_children := None; se_converted :=
  (Some 5); se_scale := (Some 2); se_precision := (Some 38); se_field_id := (Some (-7)) |}];
  fm_num_rows := 1000; fm_row_groups := [{| rg_columns := [{| cc_file_path := None;
  cc_file_offset := 4; cc_meta := (Some {| cm_type := 2; cm_encodings := [0; 3]; cm_path :=
  [[105; 100]%N]; cm_codec := 1; cm_num_values := 1000; cm_total_uncompressed := 8000;
  cm_total_compressed := 4000; cm_key_value := None; cm_data_page_offset := 4;
  cm_index_page_offset := None; cm_dictionary_page_offset := None; cm_statistics := None;
  cm_encoding_stats := None |}); cc_offset_index_offset := None; cc_offset_index_length := None;
  cc_column_index_offset := None; cc_column_index_length := None |}; {| cc_file_path := None;
  cc_file_offset := 4004; cc_meta := (Some {| cm_type := 2; cm_encodings := [0; 3]; cm_path :=
  [[110; 195; 164; 109; 101; 255]%N]; cm_codec := 1; cm_num_values := 1000;
  cm_total_uncompressed := 8000; cm_total_compressed := 4000; cm_key_value := None;
  cm_data_page_offset := 4004; cm_index_page_offset := None; cm_dictionary_page_offset := None;
  cm_statistics := None; cm_encoding_stats := None |}); cc_offset_index_offset := None;
  cc_offset_index_length := None; cc_column_index_offset := None; cc_column_index_length := None
  |}]; rg_total_byte_size := 16000; rg_num_rows := 1000 |}]; fm_key_value := None; fm_created_by
  := (Some [112; 97; 114; 115; 121; 108; 47; 112; 97; 114; 113; 117; 101; 116]%N) |}.
Definition ex_fm15_bytes : bytes :=
  [21; 2; 25; 76; 72; 4; 114; 111; 111; 116; 21; 6; 0; 21; 4; 37; 0; 24; 2; 105; 100; 0; 21; 12;
  37; 2; 24; 6; 110; 195; 164; 109; 101; 255; 37; 0; 0; 21; 14; 21; 32; 21; 4; 24; 0; 37; 10;
  21; 4; 21; 76; 21; 13; 0; 22; 208; 15; 25; 28; 25; 44; 38; 8; 28; 21; 4; 25; 37; 0; 6; 25; 24;
  2; 105; 100; 21; 2; 22; 208; 15; 22; 128; 125; 22; 192; 62; 38; 8; 0; 0; 38; 200; 62; 28; 21;
  4; 25; 37; 0; 6; 25; 24; 6; 110; 195; 164; 109; 101; 255; 21; 2; 22; 208; 15; 22; 128; 125;
  22; 192; 62; 38; 200; 62; 0; 0; 22; 128; 250; 1; 22; 208; 15; 0; 40; 14; 112; 97; 114; 115;
  121; 108; 47; 112; 97; 114; 113; 117; 101; 116; 0]%N.
Example ex_fm15_enc : enc_file_meta ex_fm15 = ex_fm15_bytes.
Proof. vm_compute. reflexivity. Qed.
Example ex_fm15_dec : dec_file_meta (ex_fm15_bytes ++ [7; 7]%N) = Some (ex_fm15, [7; 7]%N).
Proof. vm_compute. reflexivity. Qed.
Example ex_fm15_ok : file_meta_ok ex_fm15 = true.
Proof. vm_compute. reflexivity. Qed.

(** exactly 14 schema elements (longest short-form list header) *)
Definition ex_fm18 : file_meta :=
  {| fm_version := 1; fm_schema := [{| se_type := None; se_type_length := None; se_repetition :=
  None; se_name := [101]%N; se_num_children := (Some 0); se_converted := None; se_scale := None;
  se_precision := None; se_field_id := None |}; {| se_type := None; se_type_length := None;
  se_repetition := None; se_name := [101]%N; se_num_children := (Some 1); se_converted := None;
  se_scale := None; se_precision := None; se_field_id := None |}; {| se_type := None;
  se_type_length := None; se_repetition := None; se_name := [101]%N; se_num_children := (Some
  2); se_converted := None; se_scale := None; se_precision := None; se_field_id := None |}; {|
  se_type := None; se_type_length := None; se_repetition := None; se_name := [101]%N;
  se_num_children := (Some 3); se_converted := None; se_scale := None; se_precision := None;
  se_field_id := None |}; {| se_type := None; se_type_length := None; se_repetition := None;
  se_name := [101]%N; se_num_children := (Some 4); se_converted := None; se_scale := None;
  se_precision := None; se_field_id := None |}; {| se_type := None; se_type_length := None;
  se_repetition := None; se_name := [101]%N; se_num_children := (Some 5); se_converted := None;
  se_scale := None; se_precision := None; se_field_id := None |}; {| se_type := None;
  se_type_length := None; se_repetition := None; se_name := [101]%N; se_num_children := (Some
  6); se_converted := None; se_scale := None; se_precision := None; se_field_id := None |}; {|
  se_type := None; se_type_length := None; se_repetition := None; se_name := [101]%N;
  se_num_children := (Some 7); se_converted := None; se_scale := None; se_precision := None;
  se_field_id := None |}; {| se_type := None; se_type_length := None; se_repetition := None;
  se_name := [101]%N; se_num_children := (Some 8); se_converted := None; se_scale := None;
  se_precision := None; se_field_id := None |}; {| se_type := None; se_type_length := None;
  se_repetition := None; se_name := [101]%N; se_num_children := (Some 9); se_converted := None;
  se_scale := None; se_precision := None; se_field_id := None |}; {| se_type := None;
  se_type_length := None; se_repetition := None; se_name := [101]%N; se_num_children := (Some
  10); se_converted := None; se_scale := None; se_precision := None; se_field_id := None |}; {|
  se_type := None; se_type_length := None; se_repetition := None; se_name := [101]%N;
  se_num_children := (Some 11); se_converted := None; se_scale := None; se_precision := None;
  se_field_id := None |}; {| se_type := None; se_type_length := None; se_repetition := None;
  se_name := [101]%N; se_num_children := (Some 12); se_converted := None; se_scale := None;
  se_precision := None; se_field_id := None |}; {| se_type := None; se_type_length := None;
  se_repetition := None; se_name := [101]%N; se_num_children := (Some 13); se_converted := None;
  se_scale := None; se_precision := None; se_field_id := None |}]; fm_num_rows := 1;
  fm_row_groups := []; fm_key_value := None; fm_created_by := None |}.
Definition ex_fm18_bytes : bytes :=
  [21; 2; 25; 236; 72; 1; 101; 21; 0; 0; 72; 1; 101; 21; 2; 0; 72; 1; 101; 21; 4; 0; 72; 1; 101;
  21; 6; 0; 72; 1; 101; 21; 8; 0; 72; 1; 101; 21; 10; 0; 72; 1; 101; 21; 12; 0; 72; 1; 101; 21;
  14; 0; 72; 1; 101; 21; 16; 0; 72; 1; 101; 21; 18; 0; 72; 1; 101; 21; 20; 0; 72; 1; 101; 21;
  22; 0; 72; 1; 101; 21; 24; 0; 72; 1; 101; 21; 26; 0; 22; 2; 25; 12; 0]%N.
Example ex_fm18_enc : enc_file_meta ex_fm18 = ex_fm18_bytes.
Proof. vm_compute. reflexivity. Qed.
Example ex_fm18_dec : dec_file_meta (ex_fm18_bytes ++ [7; 7]%N) = Some (ex_fm18, [7; 7]%N).
Proof. vm_compute. reflexivity. Qed.
Example ex_fm18_ok : file_meta_ok ex_fm18 = true.
Proof. vm_compute. reflexivity. Qed.

(** 15 row groups (long-form list header), empty non nil key_value_metadata *)
Definition ex_fm17 : file_meta :=
  {| fm_version := 0; fm_schema := [{| se_type := (Some 3); se_type_length := None;
  se_repetition := None; se_name := [120]%N; se_num_children := None; se_converted := None;
  se_scale := None; se_precision := None; se_field_id := None |}]; fm_num_rows := 14;
  fm_row_groups := [{| rg_columns := [{| cc_file_path := None; cc_file_offset := 0; cc_meta :=
  None; cc_offset_index_offset := None; cc_offset_index_length := None; cc_column_index_offset
  := None; cc_column_index_length := None |}]; rg_total_byte_size := 0; rg_num_rows := 0 |}; {|
  rg_columns := [{| cc_file_path := None; cc_file_offset := 1000; cc_meta := None;
  cc_offset_index_offset := None; cc_offset_index_length := None; cc_column_index_offset :=
  None; cc_column_index_length := None |}]; rg_total_byte_size := 1; rg_num_rows := (-1) |}; {|
  rg_columns := [{| cc_file_path := None; cc_file_offset := 2000; cc_meta := None;
  cc_offset_index_offset := None; cc_offset_index_length := None; cc_column_index_offset :=
  None; cc_column_index_length := None |}]; rg_total_byte_size := 2; rg_num_rows := (-2) |}; {|
  rg_columns := [{| cc_file_path := None; cc_file_offset := 3000; cc_meta := None;
  cc_offset_index_offset := None; cc_offset_index_length := None; cc_column_index_offset :=
  None; cc_column_index_length := None |}]; rg_total_byte_size := 3; rg_num_rows := (-3) |}; {|
  rg_columns := [{| cc_file_path := None; cc_file_offset := 4000; cc_meta := None;
  cc_offset_index_offset := None; cc_offset_index_length := None; cc_column_index_offset :=
  None; cc_column_index_length := None |}]; rg_total_byte_size := 4; rg_num_rows := (-4) |}; {|
  rg_columns := [{| cc_file_path := None; cc_file_offset := 5000; cc_meta := None;
  cc_offset_index_offset := None; cc_offset_index_length := None; cc_column_index_offset :=
  None; cc_column_index_length := None |}]; rg_total_byte_size := 5; rg_num_rows := (-5) |}; {|
  rg_columns := [{| cc_file_path := None; cc_file_offset := 6000; cc_meta := None;
  cc_offset_index_offset := None; cc_offset_index_length := None; cc_column_index_offset :=
  None; cc_column_index_length := None |}]; rg_total_byte_size := 6; rg_num_rows := (-6) |}; {|
  rg_columns := [{| cc_file_path := None; cc_file_offset := 7000; cc_meta := None;
  cc_offset_index_offset := None; cc_offset_index_length := None; cc_column_index_offset :=
  None; cc_column_index_length := None |}]; rg_total_byte_size := 7; rg_num_rows := (-7) |}; {|
  rg_columns := [{| cc_file_path := None; cc_file_offset := 8000; cc_meta := None;
  cc_offset_index_offset := None; cc_offset_index_length := None; cc_column_index_offset :=
  None; cc_column_index_length := None |}]; rg_total_byte_size := 8; rg_num_rows := (-8) |}; {|
  rg_columns := [{| cc_file_path := None; cc_file_offset := 9000; cc_meta := None;
  cc_offset_index_offset := None; cc_offset_index_length := None; cc_column_index_offset :=
  None; cc_column_index_length := None |}]; rg_total_byte_size := 9; rg_num_rows := (-9) |}; {|
  rg_columns := [{| cc_file_path := None; cc_file_offset := 10000; cc_meta := None;
  cc_offset_index_offset := None; cc_offset_index_length := None; cc_column_index_offset :=
  None; cc_column_index_length := None |}]; rg_total_byte_size := 10; rg_num_rows := (-10) |};
  {| rg_columns := [{| cc_file_path := None; cc_file_offset := 11000; cc_meta := None;
  cc_offset_index_offset := None; cc_offset_index_length := None; cc_column_index_offset :=
  None; cc_column_index_length := None |}]; rg_total_byte_size := 11; rg_num_rows := (-11) |};
  {| rg_columns := [{| cc_file_path := None; cc_file_offset := 12000; cc_meta := None;
  cc_offset_index_offset := None; cc_offset_index_length := None; cc_column_index_offset :=
  None; cc_column_index_length := None |}]; rg_total_byte_size := 12; rg_num_rows := (-12) |};
  {| rg_columns := [{| cc_file_path := None; cc_file_offset := 13000; cc_meta := None;
  cc_offset_index_offset := None; cc_offset_index_length := None; cc_column_index_offset :=
  None; cc_column_index_length := None |}]; rg_total_byte_size := 13; rg_num_rows := (-13) |};
  {| rg_columns := [{| cc_file_path := None; cc_file_offset := 14000; cc_meta := None;
  cc_offset_index_offset := None; cc_offset_index_length := None; cc_column_index_offset :=
  None; cc_column_index_length := None |}]; rg_total_byte_size := 14; rg_num_rows := (-14) |}];
  fm_key_value := (Some []); fm_created_by := None |}.
Definition ex_fm17_bytes : bytes :=
  [21; 0; 25; 28; 21; 6; 56; 1; 120; 0; 22; 28; 25; 252; 15; 25; 28; 38; 0; 0; 22; 0; 22; 0; 0;
  25; 28; 38; 208; 15; 0; 22; 2; 22; 1; 0; 25; 28; 38; 160; 31; 0; 22; 4; 22; 3; 0; 25; 28; 38;
  240; 46; 0; 22; 6; 22; 5; 0; 25; 28; 38; 192; 62; 0; 22; 8; 22; 7; 0; 25; 28; 38; 144; 78; 0;
  22; 10; 22; 9; 0; 25; 28; 38; 224; 93; 0; 22; 12; 22; 11; 0; 25; 28; 38; 176; 109; 0; 22; 14;
  22; 13; 0; 25; 28; 38; 128; 125; 0; 22; 16; 22; 15; 0; 25; 28; 38; 208; 140; 1; 0; 22; 18; 22;
  17; 0; 25; 28; 38; 160; 156; 1; 0; 22; 20; 22; 19; 0; 25; 28; 38; 240; 171; 1; 0; 22; 22; 22;
  21; 0; 25; 28; 38; 192; 187; 1; 0; 22; 24; 22; 23; 0; 25; 28; 38; 144; 203; 1; 0; 22; 26; 22;
  25; 0; 25; 28; 38; 224; 218; 1; 0; 22; 28; 22; 27; 0; 25; 12; 0]%N.
Example ex_fm17_enc : enc_file_meta ex_fm17 = ex_fm17_bytes.
Proof. vm_compute. reflexivity. Qed.
Example ex_fm17_dec : dec_file_meta (ex_fm17_bytes ++ [7; 7]%N) = Some (ex_fm17, [7; 7]%N).
Proof. vm_compute. reflexivity. Qed.
Example ex_fm17_ok : file_meta_ok ex_fm17 = true.
Proof. vm_compute. reflexivity. Qed.

(** Fields the model does not carry are skipped when reading: the library's
    bytes for a FileMetaData whose schema elements have a logicalType (INTEGER
    with an i8 and a bool inside, TIMESTAMP with nested unions), whose row group
    has sorting_columns (required bools) and which has column_orders, decode to
    the record without them. *)
Definition ex_fm19 : file_meta :=
  {| fm_version := 2; fm_schema := [{| se_type := None; se_type_length := None; se_repetition :=
  None; se_name := [114]%N; se_num_children := (Some 1); se_converted := None; se_scale := None;
  se_precision := None; se_field_id := None |}; {| se_type := (Some 1); se_type_length := None;
  se_repetition := None; se_name := [117; 56]%N; se_num_children := None; se_converted := None;
  se_scale := None; se_precision := None; se_field_id := None |}; {| se_type := (Some 2);
  se_type_length := None; se_repetition := None; se_name := [116; 115]%N; se_num_children :=
  None; se_converted := None; se_scale := None; se_precision := None; se_field_id := None |}];
  fm_num_rows := 5; fm_row_groups := [{| rg_columns := [{| cc_file_path := None; cc_file_offset
  := 9; cc_meta := None; cc_offset_index_offset := None; cc_offset_index_length := None;
  cc_column_index_offset := None; cc_column_index_length := None |}]; rg_total_byte_size := 3;
  rg_num_rows := 5 |}]; fm_key_value := None; fm_created_by := None |}.
Definition ex_fm19_bytes : bytes :=
  [21; 4; 25; 60; 72; 1; 114; 21; 2; 0; 21; 2; 56; 2; 117; 56; 108; 172; 19; 248; 18; 0; 0; 0;
  21; 4; 56; 2; 116; 115; 108; 140; 17; 28; 44; 0; 0; 0; 0; 0; 22; 10; 25; 28; 25; 28; 38; 18;
  0; 22; 6; 22; 10; 25; 44; 21; 0; 17; 18; 0; 21; 2; 18; 17; 0; 0; 57; 44; 28; 0; 0; 28; 0; 0;
  0]%N.
Example ex_fm19_dec : dec_file_meta (ex_fm19_bytes ++ [9]%N) = Some (ex_fm19, [9]%N).
Proof. vm_compute. reflexivity. Qed.

(** Every strict prefix of a library byte string is rejected (truncated input). *)
Example ex_fm15_truncated :
  forallb (fun k => match dec_file_meta (firstn k ex_fm15_bytes) with None => true | Some _ => false end)
          (seq 0 (length ex_fm15_bytes)) = true.
Proof. vm_compute. reflexivity. Qed.
Example ex_ph12_truncated :
  forallb (fun k => match dec_page_header (firstn k ex_ph12_bytes) with None => true | Some _ => false end)
          (seq 0 (length ex_ph12_bytes)) = true.
Proof. vm_compute. reflexivity. Qed.

Print Assumptions dec_enc_page_header.
Print Assumptions enc_page_header_wf_bytes.
Print Assumptions dec_enc_file_meta.
Print Assumptions enc_file_meta_wf_bytes.
