(** * Stats: the page statistics accumulators of the six field templates
    (template_required/optional/string/string_optional/bool/bool_optional.go)
    and the orders of the column types.  Definitions only. *)
From Coq Require Import List NArith ZArith Lia Bool.
From PQ Require Import Bytes Schema MetaTypes Plain.
Import ListNotations.
Local Open Scope N_scope.

(** ** Orders on bit patterns *)

(** IEEE-754 binary32/binary64 from the bit pattern: NaN test and a key that
    orders the non-NaN values as Go's [<] does (-0 = +0). *)
Definition flt_is_nan (ebits mbits : N) (x : N) : bool :=
  let e := (x / 2 ^ mbits) mod 2 ^ ebits in
  let m := x mod 2 ^ mbits in
  (e =? 2 ^ ebits - 1) && negb (m =? 0).

Definition flt_key (ebits mbits : N) (x : N) : Z :=
  let mag := Z.of_N (x mod 2 ^ (ebits + mbits)) in
  if x / 2 ^ (ebits + mbits) =? 0 then mag else Z.opp mag.

Definition ebits_of (p : prim) : N := match p with PFloat32 => 8 | _ => 11 end.
Definition mbits_of (p : prim) : N := match p with PFloat32 => 23 | _ => 52 end.

(** [prim_lt p a b]: Go's [a < b] on values of the Go type of [p], given as bit patterns. *)
Definition prim_lt (p : prim) (a b : N) : bool :=
  match p with
  | PInt32 => Z.ltb (signZ 32 a) (signZ 32 b)
  | PInt64 => Z.ltb (signZ 64 a) (signZ 64 b)
  | PUint32 | PUint64 | PBool => a <? b
  | PFloat32 | PFloat64 =>
      negb (flt_is_nan (ebits_of p) (mbits_of p) a) && negb (flt_is_nan (ebits_of p) (mbits_of p) b)
      && Z.ltb (flt_key (ebits_of p) (mbits_of p) a) (flt_key (ebits_of p) (mbits_of p) b)
  | PString => false
  end.

Definition prim_is_nan (p : prim) (a : N) : bool :=
  match p with
  | PFloat32 | PFloat64 => flt_is_nan (ebits_of p) (mbits_of p) a
  | _ => false
  end.

(** math.MaxInt32 ... math.MaxFloat64 as bit patterns: the initial [min]. *)
Definition prim_max_const (p : prim) : N :=
  match p with
  | PInt32 => 2 ^ 31 - 1
  | PInt64 => 2 ^ 63 - 1
  | PUint32 => 2 ^ 32 - 1
  | PUint64 => 2 ^ 64 - 1
  | PFloat32 => 2139095039            (* 0x7F7FFFFF *)
  | PFloat64 => 9218868437227405311   (* 0x7FEFFFFFFFFFFFFF *)
  | _ => 0
  end.

(** bytewise lexicographic order on strings (Go's string [<]) *)
Fixpoint bytes_lt (a b : bytes) : bool :=
  match a, b with
  | [], [] => false
  | [], _ :: _ => true
  | _ :: _, [] => false
  | x :: a', y :: b' => if x <? y then true else if y <? x then false else bytes_lt a' b'
  end.

(** ** Accumulators *)

Record num_stats := { ns_min : N; ns_max : N; ns_nils : N; ns_non_nils : N }.

Definition num_stats_new (p : prim) : num_stats :=
  {| ns_min := prim_max_const p; ns_max := 0; ns_nils := 0; ns_non_nils := 0 |}.

Definition num_stats_add (p : prim) (s : num_stats) (v : N) : num_stats :=
  {| ns_min := if prim_lt p v (ns_min s) then v else ns_min s;
     ns_max := if prim_lt p (ns_max s) v then v else ns_max s;
     ns_nils := ns_nils s; ns_non_nils := ns_non_nils s + 1 |}.

Definition num_stats_nil (s : num_stats) : num_stats :=
  {| ns_min := ns_min s; ns_max := ns_max s; ns_nils := ns_nils s + 1; ns_non_nils := ns_non_nils s |}.

Record str_stats := { ss_min : bytes; ss_max : bytes; ss_seen : bool; ss_nils : N }.

Definition str_stats_new : str_stats := {| ss_min := []; ss_max := []; ss_seen := false; ss_nils := 0 |}.

Definition str_stats_add (s : str_stats) (v : bytes) : str_stats :=
  if ss_seen s then
    {| ss_min := if bytes_lt v (ss_min s) then v else ss_min s;
       ss_max := if bytes_lt (ss_max s) v then v else ss_max s;
       ss_seen := true; ss_nils := ss_nils s |}
  else {| ss_min := v; ss_max := v; ss_seen := true; ss_nils := ss_nils s |}.

Definition str_stats_nil (s : str_stats) : str_stats :=
  {| ss_min := ss_min s; ss_max := ss_max s; ss_seen := ss_seen s; ss_nils := ss_nils s + 1 |}.

(** The pre-fix string accumulator (in-band sentinel "__#NIL#__"), kept for the record. *)
Definition nil_sentinel : bytes := [95; 95; 35; 78; 73; 76; 35; 95; 95].
Definition bytes_eqb (a b : bytes) : bool := if list_eq_dec N.eq_dec a b then true else false.
Definition str_stats_add_old (mn mx : bytes) (v : bytes) : bytes * bytes :=
  (if bytes_eqb mn nil_sentinel then v else if bytes_lt v mn then v else mn,
   if bytes_eqb mx nil_sentinel then v else if bytes_lt mx v then v else mx).

(** ** The statistics of one page of a column.
    [entries] are the page's (def, value) pairs in order; [required] columns
    have only values.  The result is the thrift [statistics] record exactly as
    WritePageHeader fills it (max_value = field 5, min_value = field 6). *)

Definition is_value (maxdef : N) (e : entry) : bool := negb (e_def e <? maxdef).

Definition page_stats (p : prim) (required : bool) (maxdef : N) (entries : list entry) : statistics :=
  let vals := flat_map (fun e => match e_val e with Some v => if is_value maxdef e then [v] else [] | None => [] end) entries in
  let nils := nlen (filter (fun e => negb (is_value maxdef e)) entries) in
  let none := {| st_max := None; st_min := None; st_null_count := None; st_distinct_count := None;
                 st_max_value := None; st_min_value := None |} in
  match p with
  | PBool =>
      if required then none
      else {| st_max := None; st_min := None; st_null_count := Some (Z.of_N nils); st_distinct_count := None;
              st_max_value := None; st_min_value := None |}
  | PString =>
      let s := fold_left str_stats_add (map str_of vals) str_stats_new in
      {| st_max := None; st_min := None;
         st_null_count := if required then None else Some (Z.of_N nils);
         st_distinct_count := None;
         st_max_value := if ss_seen s then Some (ss_max s) else None;
         st_min_value := if ss_seen s then Some (ss_min s) else None |}
  | _ =>
      let s := fold_left (num_stats_add p) (map num_of vals) (num_stats_new p) in
      let present := if required then true else negb (ns_non_nils s =? 0) in
      {| st_max := None; st_min := None;
         st_null_count := if required then None else Some (Z.of_N nils);
         st_distinct_count := None;
         st_max_value := if present then Some (le_enc (prim_size p) (ns_max s)) else None;
         st_min_value := if present then Some (le_enc (prim_size p) (ns_min s)) else None |}
  end.

(** ** The property, as a checker over a page's statistics (the oracle the
    file validator applies to real files, and the statement of C12). *)

(** [le] in the column type's order on decoded statistics bytes *)
Definition prim_le_bytes (p : prim) (a b : bytes) : bool :=
  match p with
  | PString => negb (bytes_lt b a)
  | _ => negb (prim_lt p (le_dec b) (le_dec a))
  end.

Definition value_bytes_of (p : prim) (v : value) : bytes :=
  match p with PString => str_of v | _ => le_enc (prim_size p) (num_of v) end.

(** a bound of a numeric column is a value of the type - the right width, and
    not a NaN (against a NaN bound every comparison is false, so it bounds nothing) *)
Definition bound_wf (p : prim) (b : bytes) : bool :=
  match p with
  | PString | PBool => true
  | _ => Nat.eqb (length b) (prim_size p) && negb (prim_is_nan p (le_dec b))
  end.

Definition stats_sound (p : prim) (maxdef : N) (entries : list entry) (st : statistics) : bool :=
  let vals := flat_map (fun e => match e_val e with Some v => if is_value maxdef e then [v] else [] | None => [] end) entries in
  let nils := nlen (filter (fun e => negb (is_value maxdef e)) entries) in
  let nonnan := filter (fun v => negb (prim_is_nan p (num_of v))) vals in
  (match st_null_count st with Some n => Z.eqb n (Z.of_N nils) | None => true end)
  && (match st_min_value st with
      | Some mn => negb (Nat.eqb (length vals) 0) && bound_wf p mn && forallb (fun v => prim_le_bytes p mn (value_bytes_of p v)) nonnan
      | None => true end)
  && (match st_max_value st with
      | Some mx => negb (Nat.eqb (length vals) 0) && bound_wf p mx && forallb (fun v => prim_le_bytes p (value_bytes_of p v) mx) nonnan
      | None => true end).
