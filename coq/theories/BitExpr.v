(** * BitExpr: the 8-bit expression fragment that internal/bitpack/bitpack.go is
    written in.  [gen/BitpackImpl.v] (regenerated from the Go source on every
    run) consists of terms of this language; [Bitpack.v] proves the C17
    theorems about their evaluation. *)
From Coq Require Import List NArith Lia.
Import ListNotations.
Local Open Scope N_scope.

Inductive bexpr :=
| BVar (i : nat)                (* vals[i], a uint8 *)
| BAnd (e : bexpr) (m : N)      (* e & m, m a byte constant *)
| BOr  (a b : bexpr)            (* a | b *)
| BShl (e : bexpr) (k : N)      (* uint8(e << k): bits shifted out of the byte are lost *)
| BShr (e : bexpr) (k : N).     (* e >> k *)

Fixpoint eval (env : list N) (e : bexpr) : N :=
  match e with
  | BVar i => nth i env 0
  | BAnd e m => N.land (eval env e) m
  | BOr a b => N.lor (eval env a) (eval env b)
  | BShl e k => N.land (N.shiftl (eval env e) k) 255
  | BShr e k => N.shiftr (eval env e) k
  end.

Definition eval_table (t : list bexpr) (env : list N) : list N := map (eval env) t.
