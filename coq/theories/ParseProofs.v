(** * ParseProofs: property C14 of the struct parser ([Parse.v]) — excluded
    fields are inert and embedding equals inlining.

    - [decorate_inert] / [decorate_all_inert]: adding excluded fields (a single
      unexported name with any Go type and any tag, or any field tagged "-")
      to any declarations at any positions leaves [parse_root] unchanged.
    - [embed_inline]: moving a block of fields of any declaration (the root or
      a nested group) into a fresh, exported, non-primitive embedded struct
      keeps a successful parse ([parse_root ds root = Some t]) unchanged.
      When the original parse fails the equation can fail
      ([Examples.embed_converse_refuted]: a field of the undeclared type gets
      declared by the embedding); with the extra hypothesis that no field
      refers to the fresh name ([unreferenced]) and [root <> ename] the
      converse [embed_inline_conv] and the equation [embed_inline_eq] hold.
    - [children_fuel_enough]: the fuel [S (length ds)] of [parse_root] never
      cuts a parse that succeeds with more fuel (pigeonhole on declared names).
    - [shape_eq] ([shape_eq_decorate], [shape_eq_embed], ...): hence the file
      shapes are equal. *)
From Coq Require Import List NArith ZArith Lia Bool Arith PeanoNat.
From Coq Require Import ZifyN ZifyNat ZifyBool.
From PQ Require Import Bytes Schema Parse.
Import ListNotations.
Local Open Scope N_scope.

(** ** Names and lookup *)

Lemma bytes_eqb_eq a b : bytes_eqb a b = true <-> a = b.
Proof. unfold bytes_eqb. destruct (list_eq_dec N.eq_dec a b); split; congruence. Qed.

Lemma bytes_eqb_refl a : bytes_eqb a a = true.
Proof. apply bytes_eqb_eq. reflexivity. Qed.

Lemma bytes_eqb_neq a b : bytes_eqb a b = false <-> a <> b.
Proof. unfold bytes_eqb. destruct (list_eq_dec N.eq_dec a b); split; congruence. Qed.

Lemma lookup_cons n fs r name :
  lookup ((n, fs) :: r) name = if bytes_eqb n name then Some fs else lookup r name.
Proof. reflexivity. Qed.

(** ** One field at a time: [children] as a concatenation of per-field items *)

(** the columns contributed by one field, with the fuel left for its struct type *)
Definition field_items (fu : nat) (ds : decls) (f : fdecl) : option (list pfield) :=
  match raw_of f with
  | RSkip => Some []
  | RUnsupported => None
  | RField r =>
      match prim_of_name (rf_type r) with
      | Some p => if rf_embedded r then None
                  else Some [PLeaf (rf_name r) (rf_col r) (rf_rep r) p]
      | None =>
          match lookup ds (rf_type r) with
          | None => None
          | Some sub =>
              match children fu ds sub with
              | None => None
              | Some kids =>
                  if rf_embedded r then Some kids
                  else Some [PGroup (rf_name r) (rf_col r) (rf_rep r) (rf_type r) kids]
              end
          end
      end
  end.

Lemma children_O ds fs : children O ds fs = None.
Proof. reflexivity. Qed.

Lemma children_nil fu ds : children (S fu) ds [] = Some [].
Proof. reflexivity. Qed.

Lemma children_cons fu ds f rest :
  children (S fu) ds (f :: rest) =
  match children (S fu) ds rest with
  | None => None
  | Some tail =>
      match field_items fu ds f with
      | None => None
      | Some xs => Some (xs ++ tail)
      end
  end.
Proof.
  change (children (S fu) ds (f :: rest)) with
    (match children (S fu) ds rest with
     | None => None
     | Some tail =>
         match raw_of f with
         | RSkip => Some tail
         | RUnsupported => None
         | RField r =>
             match prim_of_name (rf_type r) with
             | Some p => if rf_embedded r then None
                         else Some (PLeaf (rf_name r) (rf_col r) (rf_rep r) p :: tail)
             | None =>
                 match lookup ds (rf_type r) with
                 | None => None
                 | Some sub =>
                     match children fu ds sub with
                     | None => None
                     | Some kids =>
                         if rf_embedded r then Some (kids ++ tail)
                         else Some (PGroup (rf_name r) (rf_col r) (rf_rep r) (rf_type r) kids :: tail)
                     end
                 end
             end
         end
     end).
  destruct (children (S fu) ds rest) as [tail|]; [|reflexivity].
  unfold field_items.
  destruct (raw_of f) as [|r|]; [reflexivity| |reflexivity].
  destruct (prim_of_name (rf_type r)) as [p|].
  - destruct (rf_embedded r); reflexivity.
  - destruct (lookup ds (rf_type r)) as [sub|]; [|reflexivity].
    destruct (children fu ds sub) as [kids|]; [|reflexivity].
    destruct (rf_embedded r); reflexivity.
Qed.

Lemma children_app fu ds a : forall b,
  children (S fu) ds (a ++ b) =
  match children (S fu) ds b with
  | None => None
  | Some tb =>
      match children (S fu) ds a with
      | None => None
      | Some ta => Some (ta ++ tb)
      end
  end.
Proof.
  induction a as [|f a IH]; intros b.
  - cbn [app]. rewrite children_nil. destruct (children (S fu) ds b); reflexivity.
  - cbn [app]. rewrite !children_cons, IH.
    destruct (children (S fu) ds b) as [tb|]; [|reflexivity].
    destruct (children (S fu) ds a) as [ta|]; [|reflexivity].
    destruct (field_items fu ds f) as [xs|]; [|reflexivity].
    rewrite app_assoc. reflexivity.
Qed.

Lemma children_app_some fu ds a b x :
  children (S fu) ds (a ++ b) = Some x ->
  exists ta tb, children (S fu) ds a = Some ta /\ children (S fu) ds b = Some tb /\ x = ta ++ tb.
Proof.
  rewrite children_app. intros H.
  destruct (children (S fu) ds b) as [tb|]; [|discriminate].
  destruct (children (S fu) ds a) as [ta|]; [|discriminate].
  exists ta, tb. repeat split. congruence.
Qed.

Lemma children_app_intro fu ds a b ta tb :
  children (S fu) ds a = Some ta -> children (S fu) ds b = Some tb ->
  children (S fu) ds (a ++ b) = Some (ta ++ tb).
Proof. intros Ha Hb. rewrite children_app, Ha, Hb. reflexivity. Qed.

(** [children] depends on the declarations only through the items of each field *)
Lemma children_ext fu fu' ds ds' fs :
  (forall f, In f fs -> field_items fu' ds' f = field_items fu ds f) ->
  children (S fu') ds' fs = children (S fu) ds fs.
Proof.
  induction fs as [|f fs IH]; intros H; [reflexivity|].
  rewrite !children_cons, IH, (H f (or_introl eq_refl)); [reflexivity|].
  intros g Hg. apply H. right. exact Hg.
Qed.

Lemma children_ext_some fu fu' ds ds' fs :
  (forall f xs, In f fs -> field_items fu ds f = Some xs -> field_items fu' ds' f = Some xs) ->
  forall x, children (S fu) ds fs = Some x -> children (S fu') ds' fs = Some x.
Proof.
  induction fs as [|f fs IH]; intros H x Hx; [exact Hx|].
  rewrite children_cons in Hx. rewrite children_cons.
  destruct (children (S fu) ds fs) as [tail|] eqn:Ht; [|discriminate].
  rewrite (IH (fun g xs Hg => H g xs (or_intror Hg)) tail eq_refl).
  destruct (field_items fu ds f) as [xs|] eqn:Hf; [|discriminate].
  rewrite (H f xs (or_introl eq_refl) Hf). exact Hx.
Qed.

(** ** 1. Excluded fields are inert *)

Lemma excluded_skip f : excluded f = true -> raw_of f = RSkip.
Proof.
  unfold excluded, raw_of. destruct (fd_names f) as [|n [|n2 ns]]; intros H.
  - destruct (fd_type f) as [t| | | | | | |]; try discriminate.
    destruct (is_private t); [reflexivity|]. cbn [orb] in H. rewrite H. reflexivity.
  - destruct (is_private n); [reflexivity|]. cbn [orb] in H.
    destruct (fd_tag f) as [t|]; [|discriminate]. rewrite H. reflexivity.
  - reflexivity.
Qed.

Lemma field_items_skip fu ds f : raw_of f = RSkip -> field_items fu ds f = Some [].
Proof. unfold field_items. intros H. rewrite H. reflexivity. Qed.

Lemma children_insert_skip fu ds f : raw_of f = RSkip ->
  forall i fs, children (S fu) ds (insert_at i f fs) = children (S fu) ds fs.
Proof.
  intros Hf.
  assert (H0 : forall fs, children (S fu) ds (f :: fs) = children (S fu) ds fs).
  { intros fs. rewrite children_cons, (field_items_skip fu ds f Hf).
    destruct (children (S fu) ds fs); reflexivity. }
  induction i as [|i IH]; intros fs.
  - destruct fs; apply H0.
  - destruct fs as [|y r]; [apply H0|].
    cbn [insert_at]. rewrite !children_cons, IH. reflexivity.
Qed.

Lemma lookup_decorate ds tname i f name :
  lookup (decorate ds tname i f) name =
  match lookup ds name with
  | Some fs => if bytes_eqb name tname then Some (insert_at i f fs) else Some fs
  | None => None
  end.
Proof.
  induction ds as [|[n fs] r IH]; [reflexivity|].
  cbn [decorate]. destruct (bytes_eqb n tname) eqn:Hn.
  - apply bytes_eqb_eq in Hn. subst n. rewrite !lookup_cons.
    destruct (bytes_eqb tname name) eqn:Hm.
    + apply bytes_eqb_eq in Hm. subst name. rewrite bytes_eqb_refl. reflexivity.
    + assert (Hm' : bytes_eqb name tname = false).
      { apply bytes_eqb_neq. apply bytes_eqb_neq in Hm. congruence. }
      rewrite Hm'. destruct (lookup r name) as [fs'|]; reflexivity.
  - rewrite !lookup_cons. destruct (bytes_eqb n name) eqn:Hm; [|exact IH].
    apply bytes_eqb_eq in Hm. subst name. rewrite Hn. reflexivity.
Qed.

Lemma length_decorate ds tname i f : length (decorate ds tname i f) = length ds.
Proof.
  induction ds as [|[n fs] r IH]; [reflexivity|].
  cbn [decorate]. destruct (bytes_eqb n tname); cbn [length]; [reflexivity|]. rewrite IH. reflexivity.
Qed.

Lemma children_decorate ds tname i f : raw_of f = RSkip ->
  forall fuel fs, children fuel (decorate ds tname i f) fs = children fuel ds fs.
Proof.
  intros Hf. induction fuel as [|fu IH]; intros fs; [reflexivity|].
  apply children_ext. intros g _. unfold field_items.
  destruct (raw_of g) as [|r|]; [reflexivity| |reflexivity].
  destruct (prim_of_name (rf_type r)) as [p|]; [reflexivity|].
  rewrite lookup_decorate.
  destruct (lookup ds (rf_type r)) as [sub|]; [|reflexivity].
  destruct (bytes_eqb (rf_type r) tname); rewrite IH; [|reflexivity].
  destruct fu as [|fu']; [reflexivity|].
  rewrite (children_insert_skip fu' ds f Hf). reflexivity.
Qed.

Theorem decorate_inert ds root tname i f :
  excluded f = true -> parse_root (decorate ds tname i f) root = parse_root ds root.
Proof.
  intros Hex. pose proof (excluded_skip f Hex) as Hf.
  unfold parse_root. rewrite lookup_decorate, length_decorate.
  destruct (lookup ds root) as [fs|]; [|reflexivity].
  destruct (bytes_eqb root tname); rewrite (children_decorate ds tname i f Hf); [|reflexivity].
  apply children_insert_skip. exact Hf.
Qed.

(** any number of insertions, anywhere *)
Definition decorate_all (ds : decls) (ins : list (bytes * nat * fdecl)) : decls :=
  fold_left (fun d x => decorate d (fst (fst x)) (snd (fst x)) (snd x)) ins ds.

Theorem decorate_all_inert ins : forall ds root,
  Forall (fun x : bytes * nat * fdecl => excluded (snd x) = true) ins ->
  parse_root (decorate_all ds ins) root = parse_root ds root.
Proof.
  unfold decorate_all.
  induction ins as [|[[tn i] f] ins IH]; intros ds root Hall; [reflexivity|].
  cbn [fold_left fst snd]. rewrite IH by exact (Forall_inv_tail Hall).
  apply decorate_inert. exact (Forall_inv Hall).
Qed.

(** ** 2. Embedding equals inlining *)

(** more fuel never hurts *)
Lemma children_mono ds : forall fuel fs x,
  children fuel ds fs = Some x -> children (S fuel) ds fs = Some x.
Proof.
  induction fuel as [|fu IH]; intros fs x Hx; [discriminate|].
  apply (children_ext_some fu (S fu) ds ds fs); [|exact Hx].
  intros f xs _. unfold field_items.
  destruct (raw_of f) as [|r|]; [auto| |auto].
  destruct (prim_of_name (rf_type r)) as [p|]; [auto|].
  destruct (lookup ds (rf_type r)) as [sub|]; [|auto].
  destruct (children fu ds sub) as [kids|] eqn:Hk; [|discriminate].
  rewrite (IH sub kids Hk). auto.
Qed.

Lemma children_mono_le ds fuel fuel' fs x :
  (fuel <= fuel')%nat -> children fuel ds fs = Some x -> children fuel' ds fs = Some x.
Proof.
  intros Hle Hx. induction Hle as [|m Hle IH]; [exact Hx|]. apply children_mono. exact IH.
Qed.

Lemma children_none_pred ds fuel fs : children (S fuel) ds fs = None -> children fuel ds fs = None.
Proof.
  intros H. destruct (children fuel ds fs) as [x|] eqn:Hx; [|reflexivity].
  apply children_mono in Hx. congruence.
Qed.

(** the least fuel with which a parse succeeds *)
Lemma children_min ds fs : forall fuel x,
  children fuel ds fs = Some x ->
  exists m, (S m <= fuel)%nat /\ children (S m) ds fs = Some x /\ children m ds fs = None.
Proof.
  induction fuel as [|fu IH]; intros x Hx; [discriminate|].
  destruct (children fu ds fs) as [y|] eqn:Hy.
  - assert (y = x) by (apply children_mono in Hy; congruence). subst y.
    destruct (IH x eq_refl) as (m & Hm & H1 & H2). exists m. repeat split; [lia|exact H1|exact H2].
  - exists fu. repeat split; [lia|exact Hx|exact Hy].
Qed.

Lemma skipn_skipn' {A} (k : nat) : forall (i : nat) (l : list A), skipn k (skipn i l) = skipn (i + k) l.
Proof.
  induction i as [|i IH]; intros l; [reflexivity|].
  destruct l as [|a l]; [destruct k; reflexivity|]. cbn [skipn Nat.add]. apply IH.
Qed.

Lemma split3 {A} (i k : nat) (l : list A) :
  l = firstn i l ++ firstn k (skipn i l) ++ skipn (i + k) l.
Proof. rewrite <- skipn_skipn', firstn_skipn, firstn_skipn. reflexivity. Qed.

Section Embed.
  Variables (ds : decls) (tname ename : bytes) (i k : nat) (fs_t : list fdecl).
  Hypothesis Ht : lookup ds tname = Some fs_t.
  Hypothesis Hfresh : lookup ds ename = None.
  Hypothesis Hexp : is_private ename = false.
  Hypothesis Hnprim : prim_of_name ename = None.

  Let blkA := firstn i fs_t.
  Let blkB := firstn k (skipn i fs_t).
  Let blkC := skipn (i + k) fs_t.
  Let efield := FD [] (GBase ename) None.
  Let ds' := embed ds tname ename i k.

  Lemma tname_neq_ename : tname <> ename.
  Proof. intros H. rewrite H in Ht. congruence. Qed.

  Lemma lookup_embed_gen d name :
    lookup d ename = None ->
    lookup (embed d tname ename i k) name =
    match lookup d tname with
    | None => lookup d name
    | Some ft =>
        if bytes_eqb name tname then Some (firstn i ft ++ [efield] ++ skipn (i + k) ft)
        else if bytes_eqb name ename then Some (firstn k (skipn i ft))
        else lookup d name
    end.
  Proof.
    induction d as [|[n fs] r IH]; intros Hfr; [reflexivity|].
    rewrite lookup_cons in Hfr. destruct (bytes_eqb n ename) eqn:Hne; [discriminate|].
    cbn [embed]. rewrite (lookup_cons n fs r tname).
    destruct (bytes_eqb n tname) eqn:Hn.
    - apply bytes_eqb_eq in Hn. subst n. rewrite !lookup_cons.
      destruct (bytes_eqb tname name) eqn:Hm.
      + apply bytes_eqb_eq in Hm. subst name. rewrite bytes_eqb_refl. reflexivity.
      + assert (Hm' : bytes_eqb name tname = false).
        { apply bytes_eqb_neq. apply bytes_eqb_neq in Hm. congruence. }
        rewrite Hm'. destruct (bytes_eqb ename name) eqn:He.
        * apply bytes_eqb_eq in He. subst name. rewrite bytes_eqb_refl. reflexivity.
        * assert (He' : bytes_eqb name ename = false).
          { apply bytes_eqb_neq. apply bytes_eqb_neq in He. congruence. }
          rewrite He'. reflexivity.
    - rewrite !lookup_cons, (IH Hfr). destruct (bytes_eqb n name) eqn:Hm; [|reflexivity].
      apply bytes_eqb_eq in Hm. subst name. rewrite Hn, Hne.
      destruct (lookup r tname); reflexivity.
  Qed.

  Lemma lookup_embed_t : lookup ds' tname = Some (blkA ++ [efield] ++ blkC).
  Proof. unfold ds'. rewrite (lookup_embed_gen ds tname Hfresh), Ht, bytes_eqb_refl. reflexivity. Qed.

  Lemma lookup_embed_e : lookup ds' ename = Some blkB.
  Proof.
    unfold ds'. rewrite (lookup_embed_gen ds ename Hfresh), Ht, bytes_eqb_refl.
    assert (H : bytes_eqb ename tname = false).
    { apply bytes_eqb_neq. intros H. apply tname_neq_ename. congruence. }
    rewrite H. reflexivity.
  Qed.

  Lemma lookup_embed_other name :
    name <> tname -> name <> ename -> lookup ds' name = lookup ds name.
  Proof.
    intros H1 H2. unfold ds'. rewrite (lookup_embed_gen ds name Hfresh), Ht.
    apply bytes_eqb_neq in H1. apply bytes_eqb_neq in H2. rewrite H1, H2. reflexivity.
  Qed.

  Lemma length_embed_gen d :
    lookup d tname <> None -> length (embed d tname ename i k) = S (length d).
  Proof.
    induction d as [|[n fs] r IH]; intros H; [cbn [lookup] in H; congruence|].
    cbn [embed]. rewrite lookup_cons in H. destruct (bytes_eqb n tname); [reflexivity|].
    cbn [length]. rewrite (IH H). reflexivity.
  Qed.

  Lemma length_embed : length ds' = S (length ds).
  Proof. apply length_embed_gen. rewrite Ht. discriminate. Qed.

  Lemma raw_of_efield :
    raw_of efield =
    RField {| rf_name := ename; rf_col := ename; rf_rep := Req; rf_type := ename; rf_embedded := true |}.
  Proof. unfold raw_of, efield. cbn [fd_names fd_type fd_tag]. rewrite Hexp. reflexivity. Qed.

  Lemma field_items_efield fu :
    field_items fu ds' efield = children fu ds' blkB.
  Proof.
    unfold field_items. rewrite raw_of_efield. cbn [rf_type rf_embedded].
    rewrite Hnprim, lookup_embed_e. destruct (children fu ds' blkB); reflexivity.
  Qed.

  (** Below the least fuel at which [tname] itself parses, [tname] is not
      reached, so both sets of declarations behave the same. *)
  Lemma embed_below : forall fu,
    children fu ds fs_t = None ->
    forall fs x, children (S fu) ds fs = Some x -> children (S fu) ds' fs = Some x.
  Proof.
    induction fu as [|fu IH]; intros Hnone fs x Hx.
    - apply (children_ext_some O O ds ds' fs); [|exact Hx].
      intros f xs _. unfold field_items.
      destruct (raw_of f) as [|r|]; [auto| |auto].
      destruct (prim_of_name (rf_type r)) as [p|]; [auto|].
      destruct (lookup ds (rf_type r)) as [sub|]; [|discriminate].
      rewrite children_O. discriminate.
    - apply (children_ext_some (S fu) (S fu) ds ds' fs); [|exact Hx].
      intros f xs _. unfold field_items.
      destruct (raw_of f) as [|r|]; [auto| |auto].
      destruct (prim_of_name (rf_type r)) as [p|]; [auto|].
      destruct (lookup ds (rf_type r)) as [sub|] eqn:Hl; [|discriminate].
      destruct (children (S fu) ds sub) as [kids|] eqn:Hk; [|discriminate].
      assert (H1 : rf_type r <> tname).
      { intros He. rewrite He, Ht in Hl. congruence. }
      assert (H2 : rf_type r <> ename).
      { intros He. rewrite He, Hfresh in Hl. discriminate. }
      rewrite (lookup_embed_other _ H1 H2), Hl.
      rewrite (IH (children_none_pred ds fu fs_t Hnone) sub kids Hk). auto.
  Qed.

  (** the declaration of [tname], given the general statement one level down *)
  Lemma embed_tname fu :
    (forall fs x, children fu ds fs = Some x -> children (S fu) ds' fs = Some x) ->
    forall kids, children fu ds fs_t = Some kids ->
    children (S fu) ds' (blkA ++ [efield] ++ blkC) = Some kids.
  Proof.
    intros HP kids Hk.
    destruct fu as [|fu0]; [discriminate|].
    pose proof Hk as Hk0.
    rewrite (split3 i k fs_t) in Hk. fold blkA blkB blkC in Hk.
    apply children_app_some in Hk. destruct Hk as (ka & kbc & HA & HBC & ->).
    apply children_app_some in HBC. destruct HBC as (kb & kc & HB & HC & ->).
    destruct (children_min ds fs_t (S fu0) _ Hk0) as (m & Hm & Hm1 & Hm2).
    rewrite (split3 i k fs_t) in Hm1. fold blkA blkB blkC in Hm1.
    apply children_app_some in Hm1. destruct Hm1 as (ka' & kbc' & _ & HBC' & _).
    apply children_app_some in HBC'. destruct HBC' as (kb' & kc' & HB' & _ & _).
    assert (kb' = kb).
    { apply (children_mono_le ds (S m) (S fu0)) in HB'; [congruence|lia]. }
    subst kb'.
    pose proof (embed_below m Hm2 blkB kb HB') as HB2.
    apply (children_mono_le ds' (S m) (S fu0)) in HB2; [|lia].
    apply children_app_intro; [apply HP; exact HA|].
    apply children_app_intro; [|apply HP; exact HC].
    rewrite children_cons, children_nil, field_items_efield, HB2, app_nil_r. reflexivity.
  Qed.

  (** one more unit of fuel suffices for the embedded version *)
  Lemma embed_step : forall fu fs x,
    children fu ds fs = Some x -> children (S fu) ds' fs = Some x.
  Proof.
    induction fu as [|fu IH]; intros fs x Hx; [discriminate|].
    apply (children_ext_some fu (S fu) ds ds' fs); [|exact Hx].
    intros f xs _. unfold field_items.
    destruct (raw_of f) as [|r|]; [auto| |auto].
    destruct (prim_of_name (rf_type r)) as [p|]; [auto|].
    destruct (lookup ds (rf_type r)) as [sub|] eqn:Hl; [|discriminate].
    destruct (children fu ds sub) as [kids|] eqn:Hk; [|discriminate].
    assert (H2 : rf_type r <> ename).
    { intros He. rewrite He, Hfresh in Hl. discriminate. }
    destruct (bytes_eqb (rf_type r) tname) eqn:He.
    - apply bytes_eqb_eq in He. rewrite He in *. rewrite Ht in Hl.
      assert (sub = fs_t) by congruence. subst sub.
      rewrite lookup_embed_t, (embed_tname fu IH kids Hk). auto.
    - apply bytes_eqb_neq in He. rewrite (lookup_embed_other _ He H2), Hl, (IH sub kids Hk). auto.
  Qed.

  Lemma embed_inline_sec root t :
    parse_root ds root = Some t -> parse_root ds' root = Some t.
  Proof.
    unfold parse_root. rewrite length_embed.
    destruct (lookup ds root) as [fs|] eqn:Hl; [|discriminate].
    intros Hx.
    assert (H2 : root <> ename).
    { intros He. rewrite He, Hfresh in Hl. discriminate. }
    destruct (bytes_eqb root tname) eqn:He.
    - apply bytes_eqb_eq in He. subst root. rewrite Ht in Hl.
      assert (fs = fs_t) by congruence. subst fs.
      rewrite lookup_embed_t. apply embed_tname; [apply embed_step|exact Hx].
    - apply bytes_eqb_neq in He. rewrite (lookup_embed_other _ He H2), Hl.
      apply embed_step. exact Hx.
  Qed.

  (** *** The converse, when no field already refers to the fresh name *)

  Definition no_ref (f : fdecl) : Prop := forall r, raw_of f = RField r -> rf_type r <> ename.

  Hypothesis Hnoref : forall n fs, lookup ds n = Some fs -> Forall no_ref fs.

  Lemma Forall_app_l {A} (P : A -> Prop) a b : Forall P (a ++ b) -> Forall P a.
  Proof. intros H. apply Forall_app in H. tauto. Qed.
  Lemma Forall_app_r {A} (P : A -> Prop) a b : Forall P (a ++ b) -> Forall P b.
  Proof. intros H. apply Forall_app in H. tauto. Qed.

  Lemma blocks_noref : Forall no_ref blkA /\ Forall no_ref blkB /\ Forall no_ref blkC.
  Proof.
    pose proof (Hnoref tname fs_t Ht) as H. rewrite (split3 i k fs_t) in H.
    fold blkA blkB blkC in H. repeat split.
    - exact (Forall_app_l _ _ _ H).
    - exact (Forall_app_l _ _ _ (Forall_app_r _ _ _ H)).
    - exact (Forall_app_r _ _ _ (Forall_app_r _ _ _ H)).
  Qed.

  Lemma embed_back_tname fu :
    (forall fs x, Forall no_ref fs -> children fu ds' fs = Some x -> children fu ds fs = Some x) ->
    forall kids, children fu ds' (blkA ++ [efield] ++ blkC) = Some kids ->
    children fu ds fs_t = Some kids.
  Proof.
    intros HP kids Hk. destruct fu as [|fu0]; [discriminate|].
    destruct blocks_noref as (HnA & HnB & HnC).
    apply children_app_some in Hk. destruct Hk as (ka & kbc & HA & HBC & ->).
    apply children_app_some in HBC. destruct HBC as (kb & kc & HB & HC & ->).
    rewrite children_cons, children_nil, field_items_efield in HB.
    destruct (children fu0 ds' blkB) as [kb0|] eqn:HB0; [|discriminate].
    assert (kb = kb0) by (rewrite app_nil_r in HB; congruence). subst kb0.
    rewrite (split3 i k fs_t). fold blkA blkB blkC.
    apply children_app_intro; [apply HP; assumption|].
    apply children_app_intro; [|apply HP; assumption].
    apply HP; [exact HnB|]. apply children_mono. exact HB0.
  Qed.

  (** the embedded version never needs less fuel *)
  Lemma embed_back : forall fu fs x,
    Forall no_ref fs -> children fu ds' fs = Some x -> children fu ds fs = Some x.
  Proof.
    induction fu as [|fu IH]; intros fs x Hnr Hx; [discriminate|].
    apply (children_ext_some fu fu ds' ds fs); [|exact Hx].
    intros f xs Hin. unfold field_items.
    destruct (raw_of f) as [|r|] eqn:Hr; [auto| |auto].
    destruct (prim_of_name (rf_type r)) as [p|]; [auto|].
    assert (H2 : rf_type r <> ename).
    { rewrite Forall_forall in Hnr. exact (Hnr f Hin r Hr). }
    destruct (bytes_eqb (rf_type r) tname) eqn:He.
    - apply bytes_eqb_eq in He. rewrite He. rewrite lookup_embed_t, Ht.
      destruct (children fu ds' (blkA ++ [efield] ++ blkC)) as [kids|] eqn:Hk; [|discriminate].
      rewrite (embed_back_tname fu IH kids Hk). auto.
    - apply bytes_eqb_neq in He. rewrite (lookup_embed_other _ He H2).
      destruct (lookup ds (rf_type r)) as [sub|] eqn:Hl; [|discriminate].
      destruct (children fu ds' sub) as [kids|] eqn:Hk; [|discriminate].
      rewrite (IH sub kids (Hnoref _ _ Hl) Hk). auto.
  Qed.

  Lemma embed_back_root root fu t :
    match lookup ds' root with Some fs => children fu ds' fs | None => None end = Some t ->
    root <> ename ->
    match lookup ds root with Some fs => children fu ds fs | None => None end = Some t.
  Proof.
    intros Hx H2. destruct (bytes_eqb root tname) eqn:He.
    - apply bytes_eqb_eq in He. subst root. rewrite lookup_embed_t in Hx. rewrite Ht.
      apply embed_back_tname; [apply embed_back|exact Hx].
    - apply bytes_eqb_neq in He. rewrite (lookup_embed_other _ He H2) in Hx.
      destruct (lookup ds root) as [fs|] eqn:Hl; [|discriminate].
      apply embed_back; [exact (Hnoref _ _ Hl)|exact Hx].
  Qed.
End Embed.

(** ** The fuel of [parse_root] is enough: a successful parse never nests
    deeper than the number of declarations (a struct cannot contain itself) *)

(** [n] is declared and its fields parse with fuel [S j] but not with [j] *)
Definition exact_rank (ds : decls) (n : bytes) (j : nat) : Prop :=
  exists sub x, lookup ds n = Some sub /\ children (S j) ds sub = Some x /\ children j ds sub = None.

Lemma exact_field ds m : forall fs x,
  children (S (S m)) ds fs = Some x -> children (S m) ds fs = None ->
  exists n, exact_rank ds n m.
Proof.
  induction fs as [|f fs IH]; intros x Hx Hn; [rewrite children_nil in Hn; discriminate|].
  rewrite children_cons in Hx, Hn.
  destruct (children (S (S m)) ds fs) as [tail|] eqn:Ht; [|discriminate].
  destruct (children (S m) ds fs) as [tail'|] eqn:Ht'; [|exact (IH tail eq_refl eq_refl)].
  destruct (field_items (S m) ds f) as [xs|] eqn:Hf; [|discriminate].
  destruct (field_items m ds f) as [xs'|] eqn:Hf'; [discriminate|].
  unfold field_items in Hf, Hf'.
  destruct (raw_of f) as [|r|]; [discriminate| |discriminate].
  destruct (prim_of_name (rf_type r)) as [p|]; [congruence|].
  destruct (lookup ds (rf_type r)) as [sub|] eqn:Hl; [|discriminate].
  destruct (children (S m) ds sub) as [kids|] eqn:Hk; [|discriminate].
  destruct (children m ds sub) as [kids'|] eqn:Hk'.
  - destruct (rf_embedded r); discriminate.
  - exists (rf_type r), sub, kids. auto.
Qed.

Lemma exact_chain ds : forall m fs x,
  children (S m) ds fs = Some x -> children m ds fs = None ->
  forall j, (j < m)%nat -> exists n, exact_rank ds n j.
Proof.
  induction m as [|m IH]; intros fs x Hx Hn j Hj; [lia|].
  destruct (exact_field ds m fs x Hx Hn) as (n & sub & y & Hl & Hy & Hy').
  destruct (Nat.eq_dec j m) as [->|Hne].
  - exists n, sub, y. auto.
  - apply (IH sub y Hy Hy'). lia.
Qed.

Lemma exact_rank_unique ds n j j' : exact_rank ds n j -> exact_rank ds n j' -> j = j'.
Proof.
  intros (sub & x & Hl & Hx & Hn) (sub' & x' & Hl' & Hx' & Hn').
  assert (sub' = sub) by congruence. subst sub'.
  destruct (Nat.lt_trichotomy j j') as [Hlt|[Heq|Hgt]]; [|exact Heq|].
  - apply (children_mono_le ds (S j) j') in Hx; [congruence|lia].
  - apply (children_mono_le ds (S j') j) in Hx'; [congruence|lia].
Qed.

Lemma lookup_in ds n sub : lookup ds n = Some sub -> In n (map fst ds).
Proof.
  induction ds as [|[n0 fs] r IH]; [discriminate|].
  rewrite lookup_cons. destruct (bytes_eqb n0 n) eqn:He.
  - apply bytes_eqb_eq in He. intros _. left. exact He.
  - intros H. right. exact (IH H).
Qed.

Lemma rank_names ds : forall m,
  (forall j, (j < m)%nat -> exists n, exact_rank ds n j) ->
  exists names, length names = m /\ NoDup names /\ incl names (map fst ds) /\
                forall n, In n names -> exists j, (j < m)%nat /\ exact_rank ds n j.
Proof.
  induction m as [|m IH]; intros H.
  - exists []. repeat split; [constructor|intros n []|intros n []].
  - destruct IH as (names & Hlen & Hnd & Hinc & Hrk).
    { intros j Hj. apply H. lia. }
    destruct (H m (Nat.lt_succ_diag_r m)) as (n & Hn).
    exists (n :: names). repeat split.
    + cbn [length]. rewrite Hlen. reflexivity.
    + constructor; [|exact Hnd]. intros Hin. destruct (Hrk n Hin) as (j & Hj & Hnj).
      pose proof (exact_rank_unique ds n j m Hnj Hn). lia.
    + intros a [<-|Ha]; [|exact (Hinc a Ha)].
      destruct Hn as (sub & x & Hl & _). exact (lookup_in ds n sub Hl).
    + intros a [<-|Ha]; [exists m; split; [lia|exact Hn]|].
      destruct (Hrk a Ha) as (j & Hj & Hnj). exists j. split; [lia|exact Hnj].
Qed.

Theorem children_fuel_enough ds fuel fs x :
  children fuel ds fs = Some x -> children (S (length ds)) ds fs = Some x.
Proof.
  intros Hx. destruct (children_min ds fs fuel x Hx) as (m & _ & Hm1 & Hm2).
  destruct (rank_names ds m (exact_chain ds m fs x Hm1 Hm2)) as (names & Hlen & Hnd & Hinc & _).
  pose proof (NoDup_incl_length Hnd Hinc) as Hle. rewrite map_length, Hlen in Hle.
  apply (children_mono_le ds (S m)); [lia|exact Hm1].
Qed.

(** ** The theorems of C14, part 2 *)

Theorem embed_inline ds tname ename i k root fs t :
  lookup ds tname = Some fs -> lookup ds ename = None ->
  is_private ename = false -> prim_of_name ename = None ->
  parse_root ds root = Some t ->
  parse_root (embed ds tname ename i k) root = Some t.
Proof. intros Ht Hfr Hexp Hnp. apply (embed_inline_sec ds tname ename i k fs Ht Hfr Hexp Hnp). Qed.

(** no field of the (first) declaration of any name refers to [ename] *)
Definition unreferenced (ds : decls) (ename : bytes) : Prop :=
  forall n fs, lookup ds n = Some fs -> Forall (no_ref ename) fs.

Theorem embed_inline_conv ds tname ename i k root fs t :
  lookup ds tname = Some fs -> lookup ds ename = None ->
  is_private ename = false -> prim_of_name ename = None ->
  unreferenced ds ename -> root <> ename ->
  parse_root (embed ds tname ename i k) root = Some t ->
  parse_root ds root = Some t.
Proof.
  intros Ht Hfr Hexp Hnp Hnr Hroot Hx. unfold parse_root in Hx.
  pose proof (embed_back_root ds tname ename i k fs Ht Hfr Hexp Hnp Hnr root _ t Hx Hroot) as H.
  unfold parse_root. destruct (lookup ds root) as [fs0|]; [|discriminate].
  exact (children_fuel_enough ds _ fs0 t H).
Qed.

Theorem embed_inline_eq ds tname ename i k root fs :
  lookup ds tname = Some fs -> lookup ds ename = None ->
  is_private ename = false -> prim_of_name ename = None ->
  unreferenced ds ename -> root <> ename ->
  parse_root (embed ds tname ename i k) root = parse_root ds root.
Proof.
  intros Ht Hfr Hexp Hnp Hnr Hroot.
  destruct (parse_root ds root) as [t|] eqn:H1.
  - exact (embed_inline ds tname ename i k root fs t Ht Hfr Hexp Hnp H1).
  - destruct (parse_root (embed ds tname ename i k) root) as [t|] eqn:H2; [|reflexivity].
    rewrite (embed_inline_conv ds tname ename i k root fs t Ht Hfr Hexp Hnp Hnr Hroot H2) in H1.
    discriminate.
Qed.

(** ** 3. Equal file shapes *)

Definition file_shape (ds : decls) (root : bytes) : option (list field) :=
  option_map (map shape_of) (parse_root ds root).

Corollary shape_eq_decorate ds root tname i f :
  excluded f = true -> file_shape (decorate ds tname i f) root = file_shape ds root.
Proof. intros H. unfold file_shape. rewrite (decorate_inert ds root tname i f H). reflexivity. Qed.

Corollary shape_eq_decorate_all ds root ins :
  Forall (fun x : bytes * nat * fdecl => excluded (snd x) = true) ins ->
  file_shape (decorate_all ds ins) root = file_shape ds root.
Proof. intros H. unfold file_shape. rewrite (decorate_all_inert ins ds root H). reflexivity. Qed.

Corollary shape_eq_embed ds tname ename i k root fs t :
  lookup ds tname = Some fs -> lookup ds ename = None ->
  is_private ename = false -> prim_of_name ename = None ->
  parse_root ds root = Some t ->
  file_shape (embed ds tname ename i k) root = file_shape ds root.
Proof.
  intros Ht Hfr Hexp Hnp Hx. unfold file_shape.
  rewrite (embed_inline ds tname ename i k root fs t Ht Hfr Hexp Hnp Hx), Hx. reflexivity.
Qed.

Corollary shape_eq_embed_eq ds tname ename i k root fs :
  lookup ds tname = Some fs -> lookup ds ename = None ->
  is_private ename = false -> prim_of_name ename = None ->
  unreferenced ds ename -> root <> ename ->
  file_shape (embed ds tname ename i k) root = file_shape ds root.
Proof.
  intros Ht Hfr Hexp Hnp Hnr Hroot. unfold file_shape.
  rewrite (embed_inline_eq ds tname ename i k root fs Ht Hfr Hexp Hnp Hnr Hroot). reflexivity.
Qed.

(** both parts of C14, spelled out *)
Theorem shape_eq :
  (forall ds root tname i f,
     excluded f = true ->
     option_map (map shape_of) (parse_root (decorate ds tname i f) root) =
     option_map (map shape_of) (parse_root ds root)) /\
  (forall ds tname ename i k root fs t,
     lookup ds tname = Some fs -> lookup ds ename = None ->
     is_private ename = false -> prim_of_name ename = None ->
     parse_root ds root = Some t ->
     option_map (map shape_of) (parse_root (embed ds tname ename i k) root) =
     option_map (map shape_of) (parse_root ds root)).
Proof.
  split.
  - intros ds root tname i f H. exact (shape_eq_decorate ds root tname i f H).
  - intros ds tname ename i k root fs t H1 H2 H3 H4 H5.
    exact (shape_eq_embed ds tname ename i k root fs t H1 H2 H3 H4 H5).
Qed.

(** ** Examples *)

Module Examples.
  Definition t_int32 := GBase [105;110;116;51;50].
  Definition t_int64 := GBase [105;110;116;54;52].
  Definition t_string := GBase [115;116;114;105;110;103].
  Definition t_float64 := GBase [102;108;111;97;116;54;52].
  Definition Row := [82;111;119].
  Definition Hobby := [72;111;98;98;121].
  Definition Inner := [73;110;110;101;114].
  Definition Base := [66;97;115;101].
  Definition Mixin := [77;105;120;105;110].

  (** type Row struct { ID int64; Name *string `parquet:"name"`; Hobby *Hobby; Tags []string }
      type Hobby struct { Kind string; Level *int32; Inner Inner }
      type Inner struct { Z float64 } *)
  Definition ds0 : decls :=
    [ (Row, [ FD [[73;68]] t_int64 None;
              FD [[78;97;109;101]] (GPtr t_string) (Some [110;97;109;101]);
              FD [Hobby] (GPtr (GBase Hobby)) None;
              FD [[84;97;103;115]] (GSlice t_string) None ]);
      (Hobby, [ FD [[75;105;110;100]] t_string None;
                FD [[76;101;118;101;108]] (GPtr t_int32) None;
                FD [Inner] (GBase Inner) None ]);
      (Inner, [ FD [[90]] t_float64 None ]) ].

  Definition parsed0 : list pfield :=
    [ PLeaf [73;68] [73;68] Req PInt64;
      PLeaf [78;97;109;101] [110;97;109;101] Opt PString;
      PGroup Hobby Hobby Opt Hobby
        [ PLeaf [75;105;110;100] [75;105;110;100] Req PString;
          PLeaf [76;101;118;101;108] [76;101;118;101;108] Opt PInt32;
          PGroup Inner Inner Req Inner [ PLeaf [90] [90] Req PFloat64 ] ];
      PLeaf [84;97;103;115] [84;97;103;115] Rep PString ].

  Example parse0 : parse_root ds0 Row = Some parsed0.
  Proof. vm_compute. reflexivity. Qed.

  (** `_pad int32` *)
  Definition f_pad := FD [[95;112;97;100]] t_int32 None.
  (** `anon struct{ X int32 }`: unexported name, anonymous struct with an exported inner field *)
  Definition f_anon := FD [[97;110;111;110]] (GStruct [FD [[88]] t_int32 None]) None.
  (** `Skip struct{ Y int32 } `parquet:"-"`` *)
  Definition f_skip := FD [[83;107;105;112]] (GStruct [FD [[89]] t_int32 None]) (Some dash).
  (** `cb func(A int32)` *)
  Definition f_cb := FD [[99;98]] (GFunc [FD [[65]] t_int32 None]) None.
  (** `Ch chan map[string][]*int32 `parquet:"-"`` *)
  Definition f_ch := FD [[67;104]] (GChan (GMap t_string (GSlice (GPtr t_int32)))) (Some dash).
  (** embedded unexported struct `inner` (not declared at all) *)
  Definition f_emb := FD [] (GBase [105;110;110;101;114]) None.

  Example all_excluded :
    map excluded [f_pad; f_anon; f_skip; f_cb; f_ch; f_emb] = [true; true; true; true; true; true].
  Proof. vm_compute. reflexivity. Qed.

  (** each of them, at the root, in the nested group and in the group nested in it *)
  Definition ins : list (bytes * nat * fdecl) :=
    [ (Row, 0%nat, f_pad); (Row, 2%nat, f_anon); (Row, 9%nat, f_skip); (Row, 1%nat, f_cb);
      (Hobby, 1%nat, f_anon); (Hobby, 0%nat, f_skip); (Hobby, 3%nat, f_cb); (Hobby, 2%nat, f_ch);
      (Inner, 0%nat, f_cb); (Inner, 1%nat, f_anon); (Inner, 1%nat, f_emb); (Inner, 0%nat, f_pad) ].

  Example inert_computed : parse_root (decorate_all ds0 ins) Row = Some parsed0.
  Proof. vm_compute. reflexivity. Qed.

  Example inert_by_theorem : parse_root (decorate_all ds0 ins) Row = parse_root ds0 Row.
  Proof. apply decorate_all_inert. repeat constructor. Qed.

  (** each one alone *)
  Example inert_each :
    map (fun f => parse_root (decorate ds0 Hobby 1 f) Row) [f_pad; f_anon; f_skip; f_cb]
    = [Some parsed0; Some parsed0; Some parsed0; Some parsed0].
  Proof. vm_compute. reflexivity. Qed.

  (** contrast: the same anonymous struct under an exported name and without
      the "-" tag is outside the documented grammar and is rejected *)
  Example exported_anon_rejected :
    let f := FD [[65;110;111;110]] (GStruct [FD [[88]] t_int32 None]) None in
    excluded f = false /\ parse_root (decorate ds0 Hobby 1 f) Row = None.
  Proof. vm_compute. split; reflexivity. Qed.

  (** type Row struct { Base; Hobby *Hobby; Tags []string }; type Base struct { ID int64; Name *string } *)
  Example embed_root : parse_root (embed ds0 Row Base 0 2) Row = Some parsed0.
  Proof. vm_compute. reflexivity. Qed.

  (** type Hobby struct { Kind string; Mixin }; type Mixin struct { Level *int32; Inner Inner } *)
  Example embed_nested : parse_root (embed ds0 Hobby Mixin 1 2) Row = Some parsed0.
  Proof. vm_compute. reflexivity. Qed.

  (** both, and an embedded struct inside the embedded struct *)
  Example embed_twice :
    parse_root (embed (embed (embed ds0 Hobby Mixin 1 2) Row Base 0 3) Base [81] 1 1) Row = Some parsed0.
  Proof. vm_compute. reflexivity. Qed.

  Example embed_by_theorem : parse_root (embed ds0 Hobby Mixin 1 2) Row = parse_root ds0 Row.
  Proof.
    rewrite parse0. eapply embed_inline; [reflexivity|reflexivity|reflexivity|reflexivity|exact parse0].
  Qed.

  (** the innermost struct uses all the fuel of the embedded version: three
      declarations deep before, four after *)
  Example embed_deepest : parse_root (embed ds0 Inner Mixin 0 1) Row = Some parsed0.
  Proof. vm_compute. reflexivity. Qed.

  (** why the converse needs [unreferenced]: a field of the undeclared type E
      makes the original fail, while declaring E by embedding repairs it *)
  Example embed_converse_refuted :
    let ds := [ ([84], [FD [[65]] (GBase [69]) None]) ] in
    lookup ds [69] = None /\ parse_root ds [84] = None /\
    parse_root (embed ds [84] [69] 0 0) [84] = Some [PGroup [65] [65] Req [69] []].
  Proof. vm_compute. repeat split; reflexivity. Qed.
End Examples.

Print Assumptions decorate_inert.
Print Assumptions decorate_all_inert.
Print Assumptions embed_inline.
Print Assumptions embed_inline_conv.
Print Assumptions embed_inline_eq.
Print Assumptions children_fuel_enough.
Print Assumptions shape_eq.
Print Assumptions shape_eq_decorate.
Print Assumptions shape_eq_embed.
Print Assumptions shape_eq_embed_eq.
