(** * PlainProofs: the PLAIN value sections written by the field templates are
    read back by the generated Read methods (and by the strict decoder of the
    file validator).  Proofs about [Plain.v]. *)
From Coq Require Import List NArith ZArith Lia Bool Arith PeanoNat.
From Coq Require Import ZifyN ZifyNat ZifyBool.
From PQ Require Import Bytes Schema Rle Plain.
Import ListNotations.
Local Open Scope N_scope.

Ltac Zify.zify_post_hook ::= Z.div_mod_to_equations.

(** ** Well-typed leaves *)

Definition leaf_ok (p : prim) (v : value) : Prop := prim_ok p v = true.

(** the six fixed-width numeric primitives *)
Definition numeric (p : prim) : Prop :=
  match p with PBool | PString => False | _ => True end.

Lemma leaf_ok_numeric p v :
  numeric p -> leaf_ok p v -> exists n, v = VNum n /\ n < 2 ^ prim_bits p.
Proof.
  unfold leaf_ok. intros Hp Hv.
  destruct p; try contradiction; destruct v as [n|bs| |l|l];
    cbn [prim_ok] in Hv; try discriminate;
    (exists n; split; [reflexivity | apply N.ltb_lt; exact Hv]).
Qed.

Lemma leaf_ok_bool v : leaf_ok PBool v -> v = VNum 0 \/ v = VNum 1.
Proof.
  unfold leaf_ok. intros Hv.
  destruct v as [n|bs| |l|l]; cbn [prim_ok prim_bits] in Hv; try discriminate.
  change (2 ^ 1) with 2 in Hv.
  assert (Hn : n = 0 \/ n = 1) by lia.
  destruct Hn as [Hn|Hn]; subst n; auto.
Qed.

Lemma leaf_ok_string v : leaf_ok PString v -> exists bs, v = VStr bs /\ wf_bytes bs.
Proof.
  unfold leaf_ok. intros Hv.
  destruct v as [n|bs| |l|l]; cbn [prim_ok] in Hv; try discriminate.
  exists bs. split; [reflexivity | apply wf_bytesb_spec; exact Hv].
Qed.

Lemma pow_bits_size p : numeric p -> 2 ^ prim_bits p = 256 ^ N.of_nat (prim_size p).
Proof. intros Hp. destruct p; try contradiction; reflexivity. Qed.

(** ** Shape of the encoder *)

Lemma plain_enc_numeric p vs :
  numeric p ->
  plain_enc p vs = concat (map (fun v => le_enc (prim_size p) (num_of v)) vs).
Proof. intros Hp. destruct p; try contradiction; reflexivity. Qed.

Lemma plain_enc_nonbool p vs :
  p <> PBool -> plain_enc p vs = concat (map (plain_enc_val p) vs).
Proof. intros Hp. destruct p; try congruence; reflexivity. Qed.

Lemma plain_enc_app p a b :
  p <> PBool -> plain_enc p (a ++ b) = plain_enc p a ++ plain_enc p b.
Proof.
  intros Hp. rewrite !plain_enc_nonbool by assumption.
  rewrite map_app, concat_app. reflexivity.
Qed.

Lemma plain_enc_cons p v vs :
  p <> PBool -> plain_enc p (v :: vs) = plain_enc_val p v ++ plain_enc p vs.
Proof. intros Hp. rewrite !plain_enc_nonbool by assumption. reflexivity. Qed.

Lemma numeric_nonbool p : numeric p -> p <> PBool.
Proof. intros Hp He. subst p. exact Hp. Qed.

Lemma prim_eq_dec_bool p : {p = PBool} + {p <> PBool}.
Proof. destruct p; (left; reflexivity) || (right; discriminate). Qed.

Lemma plain_enc_val_numeric p v :
  numeric p -> plain_enc_val p v = le_enc (prim_size p) (num_of v).
Proof. intros Hp. destruct p; try contradiction; reflexivity. Qed.

(** ** 1. Length of a fixed-width section *)

Lemma plain_enc_length_fixed p vs :
  numeric p -> Forall (leaf_ok p) vs ->
  length (plain_enc p vs) = (length vs * prim_size p)%nat.
Proof.
  intros Hp _. induction vs as [|v vs IH].
  - rewrite plain_enc_numeric by assumption. reflexivity.
  - rewrite plain_enc_cons by (apply numeric_nonbool; assumption).
    rewrite plain_enc_val_numeric by assumption.
    rewrite app_length, le_enc_length, IH. cbn [length]. lia.
Qed.

(** ** 3. The generated numeric Read on a concatenation of value sections *)

Lemma firstn_le_enc k n r : firstn k (le_enc k n ++ r) = le_enc k n.
Proof.
  pose proof (firstn_app_exact (le_enc k n) r) as H.
  rewrite le_enc_length in H. exact H.
Qed.

Lemma skipn_le_enc k n r : skipn k (le_enc k n ++ r) = r.
Proof.
  pose proof (skipn_app_exact (le_enc k n) r) as H.
  rewrite le_enc_length in H. exact H.
Qed.

Lemma read_fixed_concat p vs extra :
  numeric p -> Forall (leaf_ok p) vs ->
  read_fixed (prim_size p) (length vs) (plain_enc p vs ++ extra) = Some vs.
Proof.
  intros Hp Hvs. induction Hvs as [|v vs Hv Hvs IH].
  - reflexivity.
  - destruct (leaf_ok_numeric p v Hp Hv) as [n [Hvn Hn]]. subst v.
    rewrite plain_enc_cons by (apply numeric_nonbool; assumption).
    rewrite plain_enc_val_numeric by assumption.
    cbn [num_of length read_fixed]. rewrite <- app_assoc.
    replace (Nat.leb (prim_size p)
               (length (le_enc (prim_size p) n ++ plain_enc p vs ++ extra))) with true
      by (symmetry; apply Nat.leb_le; rewrite app_length, le_enc_length; lia).
    rewrite skipn_le_enc, firstn_le_enc, IH.
    rewrite le_dec_enc by (rewrite <- pow_bits_size by assumption; exact Hn).
    reflexivity.
Qed.

(** ** 4. The generated string Read loop *)

Lemma pow256_4 : 256 ^ N.of_nat 4 = 4294967296.
Proof. reflexivity. Qed.

Lemma read_strings_step n s tl :
  nlen s < 2 ^ 31 ->
  read_strings (S n) (le_enc 4 (nlen s mod 2 ^ 32) ++ s ++ tl) =
  match read_strings n tl with
  | Ok vs => Ok (VStr s :: vs)
  | Err => Err
  | Panic => Panic
  end.
Proof.
  intros Hs.
  change (2 ^ 31) with 2147483648 in Hs.
  assert (Hmod : nlen s mod 2 ^ 32 = nlen s).
  { change (2 ^ 32) with 4294967296. apply N.mod_small. lia. }
  rewrite Hmod. cbn [read_strings].
  replace (Nat.ltb (length (le_enc 4 (nlen s) ++ s ++ tl)) 4) with false
    by (symmetry; apply Nat.ltb_ge; rewrite app_length, le_enc_length; lia).
  rewrite firstn_le_enc, skipn_le_enc.
  rewrite le_dec_enc by (rewrite pow256_4; lia).
  replace (2 ^ 31 <=? nlen s) with false
    by (symmetry; apply N.leb_gt; change (2 ^ 31) with 2147483648; lia).
  assert (Hk : N.to_nat (nlen s) = length s) by (unfold nlen; apply Nat2N.id).
  rewrite Hk.
  assert (Hbody :
    firstn (length s) (s ++ tl) ++
      repeat 0 (length s - length (firstn (length s) (s ++ tl))) = s).
  { rewrite firstn_app_exact, Nat.sub_diag. cbn [repeat]. apply app_nil_r. }
  destruct s as [|b s'].
  - cbn [length app]. destruct tl as [|c tl']; reflexivity.
  - cbn [app length] in *.
    cbn [app length] in Hbody. rewrite Hbody.
    change (skipn (S (length s')) (b :: s' ++ tl)) with (skipn (length s') (s' ++ tl)).
    rewrite skipn_app_exact. reflexivity.
Qed.

Lemma read_strings_concat vs extra :
  Forall (leaf_ok PString) vs ->
  Forall (fun v => nlen (str_of v) < 2 ^ 31) vs ->
  read_strings (length vs) (plain_enc PString vs ++ extra) = Ok vs.
Proof.
  intros Hvs. induction Hvs as [|v vs Hv Hvs IH]; intros Hlen.
  - reflexivity.
  - destruct (leaf_ok_string v Hv) as [s [Hvs' _]]. subst v.
    inversion Hlen as [|v0 vs0 Hs Hrest]; subst v0 vs0.
    rewrite plain_enc_cons by discriminate.
    cbn [plain_enc_val str_of length] in *.
    rewrite <- !app_assoc.
    rewrite read_strings_step by exact Hs.
    rewrite IH by exact Hrest. reflexivity.
Qed.

(** ** Bit-packed bools *)

Lemma bools_byte_shift bs bit : bools_byte bs (bit + 1) = 2 * bools_byte bs bit.
Proof.
  revert bit. induction bs as [|b r IH]; intros bit; cbn [bools_byte].
  - reflexivity.
  - rewrite IH. destruct (b =? 0).
    + lia.
    + rewrite N.pow_add_r. change (2 ^ 1) with 2. lia.
Qed.

Lemma bools_byte_cons b r :
  bools_byte (b :: r) 0 = 2 * bools_byte r 0 + N.b2n (negb (b =? 0)).
Proof.
  cbn [bools_byte].
  rewrite (bools_byte_shift r 0).
  destruct (b =? 0); cbn [negb N.b2n]; change (2 ^ 0) with 1; lia.
Qed.

Lemma bools_byte_bound bs : bools_byte bs 0 < 2 ^ N.of_nat (length bs).
Proof.
  induction bs as [|b r IH].
  - cbn. lia.
  - rewrite bools_byte_cons. cbn [length].
    rewrite Nat2N.inj_succ, N.pow_succ_r'.
    destruct (negb (b =? 0)); cbn [N.b2n]; lia.
Qed.

Lemma bools_byte_is_byte bs : (length bs <= 8)%nat -> is_byte (bools_byte bs 0).
Proof.
  intros Hl. unfold is_byte.
  pose proof (bools_byte_bound bs) as Hb.
  assert (Hp : 2 ^ N.of_nat (length bs) <= 2 ^ 8) by (apply N.pow_le_mono_r; lia).
  change (2 ^ 8) with 256 in Hp. lia.
Qed.

Lemma unpack_bools_byte_step x (c : bool) m :
  unpack_bools_byte (2 * x + N.b2n c) (S m) =
  VNum (if c then 1 else 0) :: unpack_bools_byte x m.
Proof.
  unfold unpack_bools_byte. cbn [seq map]. f_equal.
  - change (N.of_nat 0) with 0. rewrite N.testbit_0_r. reflexivity.
  - rewrite <- seq_shift, map_map. apply map_ext. intros i.
    rewrite Nat2N.inj_succ, N.testbit_succ_r. reflexivity.
Qed.

Definition bit01 (n : N) : Prop := n = 0 \/ n = 1.

Lemma unpack_bools_byte_pack bs :
  Forall bit01 bs ->
  unpack_bools_byte (bools_byte bs 0) (length bs) = map VNum bs.
Proof.
  induction 1 as [|b r Hb Hr IH].
  - reflexivity.
  - rewrite bools_byte_cons. cbn [length map].
    rewrite unpack_bools_byte_step, IH.
    destruct Hb as [Hb|Hb]; subst b; reflexivity.
Qed.

Lemma pack_bools_fuel_length fuel bs :
  (length bs < fuel)%nat ->
  length (pack_bools_fuel fuel bs) = Nat.div (length bs + 7) 8.
Proof.
  revert bs. induction fuel as [|f IH]; intros bs Hf; [lia|].
  cbn [pack_bools_fuel]. destruct bs as [|b r].
  - reflexivity.
  - cbn [length]. rewrite IH.
    + rewrite skipn_length. cbn [length]. lia.
    + rewrite skipn_length. cbn [length] in *. lia.
Qed.

(** 6a. *)
Lemma pack_bools_length bs : length (pack_bools bs) = Nat.div (length bs + 7) 8.
Proof. unfold pack_bools. apply pack_bools_fuel_length. lia. Qed.

Lemma pack_bools_fuel_wf fuel bs : wf_bytes (pack_bools_fuel fuel bs).
Proof.
  revert bs. induction fuel as [|f IH]; intros bs; cbn [pack_bools_fuel].
  - constructor.
  - destruct bs as [|b r]; [constructor|].
    constructor; [|apply IH].
    apply bools_byte_is_byte. rewrite firstn_length. lia.
Qed.

Lemma pack_bools_wf bs : wf_bytes (pack_bools bs).
Proof. apply pack_bools_fuel_wf. Qed.

Lemma bools_of_chunk_pack_fuel fuel bs :
  (length bs < fuel)%nat -> Forall bit01 bs ->
  bools_of_chunk (pack_bools_fuel fuel bs) (length bs) = map VNum bs.
Proof.
  revert bs. induction fuel as [|f IH]; intros bs Hf Hbs; [lia|].
  cbn [pack_bools_fuel]. destruct bs as [|b r].
  - reflexivity.
  - set (l := b :: r) in *.
    assert (Hl : (0 < length l)%nat) by (subst l; cbn [length]; lia).
    clearbody l. cbn [bools_of_chunk].
    assert (Hfl : length (firstn 8 l) = Nat.min (length l) 8)
      by (rewrite firstn_length; lia).
    rewrite <- Hfl.
    rewrite unpack_bools_byte_pack.
    2:{ rewrite Forall_forall in *. intros x Hx. apply Hbs.
        rewrite <- (firstn_skipn 8 l). apply in_or_app. auto. }
    replace (length l - length (firstn 8 l))%nat with (length (skipn 8 l))
      by (rewrite skipn_length, firstn_length; lia).
    rewrite IH.
    + rewrite <- map_app, firstn_skipn. reflexivity.
    + rewrite skipn_length. lia.
    + rewrite Forall_forall in *. intros x Hx. apply Hbs.
      rewrite <- (firstn_skipn 8 l). apply in_or_app. auto.
Qed.

Lemma bools_of_chunk_pack bs :
  Forall bit01 bs -> bools_of_chunk (pack_bools bs) (length bs) = map VNum bs.
Proof. intros Hbs. unfold pack_bools. apply bools_of_chunk_pack_fuel; [lia | exact Hbs]. Qed.

Lemma bools_num_of vs :
  Forall (leaf_ok PBool) vs -> Forall bit01 (map num_of vs) /\ map VNum (map num_of vs) = vs.
Proof.
  induction 1 as [|v vs Hv Hvs IH].
  - split; [constructor | reflexivity].
  - destruct IH as [IH1 IH2]. cbn [map]. rewrite IH2.
    destruct (leaf_ok_bool v Hv) as [Hv0|Hv1]; subst v; cbn [num_of];
      (split; [constructor; [unfold bit01; auto | exact IH1] | reflexivity]).
Qed.

Lemma bools_of_chunk_enc vs :
  Forall (leaf_ok PBool) vs ->
  bools_of_chunk (plain_enc PBool vs) (length vs) = vs.
Proof.
  intros Hvs. destruct (bools_num_of vs Hvs) as [H1 H2].
  cbn [plain_enc].
  rewrite <- (map_length num_of vs) at 1.
  rewrite bools_of_chunk_pack by exact H1. exact H2.
Qed.

Lemma plain_enc_bool_length vs :
  length (plain_enc PBool vs) = Nat.div (length vs + 7) 8.
Proof. cbn [plain_enc]. rewrite pack_bools_length, map_length. reflexivity. Qed.

(** ** 2. The strict decoder inverts the encoder *)

Lemma strict_strings_enc vs :
  Forall (leaf_ok PString) vs ->
  Forall (fun v => nlen (str_of v) < 2 ^ 32) vs ->
  strict_strings (length vs) (plain_enc PString vs) = Some vs.
Proof.
  intros Hvs. induction Hvs as [|v vs Hv Hvs IH]; intros Hlen.
  - reflexivity.
  - destruct (leaf_ok_string v Hv) as [s [Hvs' _]]. subst v.
    inversion Hlen as [|v0 vs0 Hs Hrest]; subst v0 vs0.
    rewrite plain_enc_cons by discriminate.
    cbn [plain_enc_val str_of length strict_strings] in *.
    rewrite <- app_assoc.
    change (2 ^ 32) with 4294967296 in *.
    rewrite N.mod_small by exact Hs.
    rewrite take_le_enc by (rewrite pow256_4; exact Hs).
    cbv beta iota.
    assert (Hk : N.to_nat (nlen s) = length s) by (unfold nlen; apply Nat2N.id).
    rewrite Hk.
    replace (Nat.leb (length s) (length (s ++ plain_enc PString vs))) with true
      by (symmetry; apply Nat.leb_le; rewrite app_length; lia).
    rewrite skipn_app_exact, firstn_app_exact, IH by exact Hrest.
    reflexivity.
Qed.

Lemma plain_strict_roundtrip p vs :
  Forall (leaf_ok p) vs ->
  (p = PString -> Forall (fun v => nlen (str_of v) < 2 ^ 32) vs) ->
  plain_dec_strict p (length vs) (plain_enc p vs) = Some vs.
Proof.
  intros Hvs Hstr.
  assert (Hnum : numeric p ->
            plain_dec_strict p (length vs) (plain_enc p vs) =
            read_fixed (prim_size p) (length vs) (plain_enc p vs ++ [])).
  { intros Hp. rewrite app_nil_r.
    pose proof (plain_enc_length_fixed p vs Hp Hvs) as Hl.
    destruct p; try contradiction; unfold plain_dec_strict;
      rewrite Hl, Nat.eqb_refl; reflexivity. }
  destruct p;
    try (rewrite Hnum by exact I; apply read_fixed_concat; [exact I | exact Hvs]).
  - (* PBool *)
    unfold plain_dec_strict.
    rewrite plain_enc_bool_length, Nat.eqb_refl.
    rewrite bools_of_chunk_enc by exact Hvs.
    change (pack_bools (map num_of vs)) with (plain_enc PBool vs).
    destruct (list_eq_dec N.eq_dec (plain_enc PBool vs) (plain_enc PBool vs)) as [_|Hne];
      [reflexivity | congruence].
  - (* PString *)
    unfold plain_dec_strict. apply strict_strings_enc; [exact Hvs | apply Hstr; reflexivity].
Qed.

(** ** 5. GetBools over the pages of a chunk *)

Lemma get_bools_pages pages :
  Forall (fun pg => Forall (leaf_ok PBool) pg) pages ->
  get_bools (concat (map (plain_enc PBool) pages)) (map (@length value) pages) = Ok (concat pages).
Proof.
  induction 1 as [|pg pages Hpg Hpages IH].
  - reflexivity.
  - cbn [map concat].
    destruct pg as [|v pg'].
    + cbn [length get_bools]. change (plain_enc PBool []) with (@nil N).
      cbn [app]. exact IH.
    + set (pg := v :: pg') in *.
      pose proof (plain_enc_bool_length pg) as Hl.
      pose proof (bools_of_chunk_enc pg Hpg) as Hc.
      assert (Hlen : length pg = S (length pg')) by reflexivity.
      clearbody pg. rewrite Hlen. cbn [get_bools]. rewrite <- Hlen, <- Hl.
      replace (Nat.ltb (length (plain_enc PBool pg ++ concat (map (plain_enc PBool) pages)))
                 (length (plain_enc PBool pg))) with false
        by (symmetry; apply Nat.ltb_ge; rewrite app_length; lia).
      rewrite skipn_app_exact, firstn_app_exact, IH, Hc. reflexivity.
Qed.

(** ** 6b. Every encoder output is a well-formed byte string *)

Lemma plain_enc_wf p vs : Forall (leaf_ok p) vs -> wf_bytes (plain_enc p vs).
Proof.
  intros Hvs.
  destruct (prim_eq_dec_bool p) as [Hb|Hb].
  - subst p. cbn [plain_enc]. apply pack_bools_wf.
  - rewrite plain_enc_nonbool by exact Hb. apply wf_bytes_concat.
    rewrite Forall_map. rewrite Forall_forall in *. intros v Hv.
    specialize (Hvs v Hv).
    destruct p; try congruence; try apply le_enc_wf.
    destruct (leaf_ok_string v Hvs) as [s [Hs Hwf]]. subst v.
    cbn [plain_enc_val str_of]. apply wf_bytes_app. split; [apply le_enc_wf | exact Hwf].
Qed.

Print Assumptions plain_enc_length_fixed.
Print Assumptions plain_strict_roundtrip.
Print Assumptions read_fixed_concat.
Print Assumptions plain_enc_app.
Print Assumptions read_strings_concat.
Print Assumptions get_bools_pages.
Print Assumptions pack_bools_length.
Print Assumptions plain_enc_wf.
