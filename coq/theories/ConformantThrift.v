(** * ConformantThrift: two facts about the generic thrift decoder that hold
    for whatever bytes it accepts (no encoder involved):
    - locality: a successful decode looks only at the bytes it consumes, so it
      succeeds with the same result whatever follows them and at any larger
      fuel ([tdec_local], [dec_page_header_local], [dec_file_meta_local]);
    - ranges: every i32 it returns is in the int32 range ([dec_page_header_i32]). *)
From Coq Require Import List NArith ZArith Lia Bool Arith PeanoNat.
From Coq Require Import ZifyN ZifyNat ZifyBool.
From PQ Require Import Bytes Varint VarintProofs MetaTypes Thrift ThriftProofs Meta.
Import ListNotations.
Local Open Scope N_scope.

Ltac Zify.zify_post_hook ::= Z.div_mod_to_equations.

(** ** Locality of the primitive decoders *)

(** [dec bs = Some (a, r)] consumed a prefix [pre] of at least [m] bytes and
    would return the same on [pre] followed by anything *)
Definition ploc {A} (dec : bytes -> option (A * bytes)) (m : nat) (bs : bytes) (a : A) (r : bytes) : Prop :=
  exists pre, bs = pre ++ r /\ (m <= length pre)%nat /\ forall rest, dec (pre ++ rest) = Some (a, rest).

Lemma uleb_dec_aux_local : forall bs shift acc n r,
  uleb_dec_aux bs shift acc = Some (n, r) ->
  exists pre, bs = pre ++ r /\ (1 <= length pre)%nat /\
              forall rest, uleb_dec_aux (pre ++ rest) shift acc = Some (n, rest).
Proof.
  induction bs as [|b bs IH]; intros shift acc n r H; [discriminate H|].
  cbn [uleb_dec_aux] in H. destruct (b <? 128) eqn:E.
  - injection H as <- <-. exists [b]. split; [reflexivity|]. split; [cbn [length]; lia|].
    intros rest. cbn [app uleb_dec_aux]. rewrite E. reflexivity.
  - destruct (IH _ _ _ _ H) as (pre & -> & _ & Hpre). exists (b :: pre). split; [reflexivity|].
    split; [cbn [length]; lia|]. intros rest. cbn [app uleb_dec_aux]. rewrite E. apply Hpre.
Qed.

Lemma uleb_dec_local bs n r : uleb_dec bs = Some (n, r) -> ploc uleb_dec 1 bs n r.
Proof. intros H. apply uleb_dec_aux_local in H. exact H. Qed.

Lemma dec_zz_local lim bs z r : dec_zz lim bs = Some (z, r) -> ploc (dec_zz lim) 1 bs z r.
Proof.
  unfold dec_zz. intros H. destruct (uleb_dec bs) as [[n r0]|] eqn:E; [|discriminate H].
  destruct (n <? lim) eqn:El; [|discriminate H]. injection H as <- <-.
  destruct (uleb_dec_local _ _ _ E) as (pre & -> & Hl & Hpre). exists pre. split; [reflexivity|]. split; [exact Hl|].
  intros rest. rewrite Hpre, El. reflexivity.
Qed.

Lemma firstn_app_len {A} n (a b : list A) : length a = n -> firstn n (a ++ b) = a.
Proof. intros <-. apply firstn_app_exact. Qed.

Lemma skipn_app_len {A} n (a b : list A) : length a = n -> skipn n (a ++ b) = b.
Proof. intros <-. apply skipn_app_exact. Qed.

Lemma take_le_local k bs v r : take_le k bs = Some (v, r) -> ploc (take_le k) k bs v r.
Proof.
  unfold take_le. intros H. destruct (Nat.leb k (length bs)) eqn:E; [|discriminate H].
  apply Nat.leb_le in E. injection H as <- <-. exists (firstn k bs). split; [symmetry; apply firstn_skipn|].
  assert (Hl : length (firstn k bs) = k) by (apply firstn_length_le; exact E).
  split; [lia|]. intros rest.
  rewrite app_length, Hl. replace (Nat.leb k (k + length rest)) with true by (symmetry; apply Nat.leb_le; lia).
  rewrite (firstn_app_len k _ _ Hl), (skipn_app_len k _ _ Hl). reflexivity.
Qed.

Lemma take_bytes_local n bs s r : take_bytes n bs = Some (s, r) -> ploc (take_bytes n) 0 bs s r.
Proof.
  unfold take_bytes. intros H. destruct (n <=? nlen bs) eqn:E; [|discriminate H].
  apply N.leb_le in E. unfold nlen in E. injection H as <- <-.
  exists (firstn (N.to_nat n) bs). split; [symmetry; apply firstn_skipn|]. split; [lia|].
  intros rest. assert (Hl : length (firstn (N.to_nat n) bs) = N.to_nat n) by (apply firstn_length_le; lia).
  replace (n <=? nlen (firstn (N.to_nat n) bs ++ rest)) with true
    by (symmetry; apply N.leb_le; unfold nlen; rewrite app_length, Hl; lia).
  rewrite (firstn_app_len _ _ _ Hl), (skipn_app_len _ _ _ Hl). reflexivity.
Qed.

(** ** The values the decoder returns: every i32 is an int32 *)

Fixpoint ints_ok (v : tval) : bool :=
  match v with
  | TI32 z => i32_ok z
  | TList _ vs => forallb ints_ok vs
  | TStruct fs =>
      (fix go (l : list (N * tval)) {struct l} : bool :=
         match l with
         | [] => true
         | (_, x) :: r => ints_ok x && go r
         end) fs
  | _ => true
  end.

Fixpoint fields_ints_ok (l : list (N * tval)) : bool :=
  match l with
  | [] => true
  | (_, x) :: r => ints_ok x && fields_ints_ok r
  end.

Lemma ints_ok_struct fs : ints_ok (TStruct fs) = fields_ints_ok fs.
Proof. cbn [ints_ok]. induction fs as [|[i x] r IH]; cbn [fields_ints_ok]; [reflexivity | rewrite IH; reflexivity]. Qed.

Lemma unzigzag_i32 n : n < i32_lim -> i32_ok (unzigzag n) = true.
Proof.
  unfold i32_lim, i32_ok, in_range, unzigzag. intros H. destruct (N.even n); lia.
Qed.

(** ** The compact types the decoder knows *)

Lemma tdec_val_gen_cases ty :
  ty = 1 \/ ty = 2 \/ ty = 3 \/ ty = 4 \/ ty = 5 \/ ty = 6 \/ ty = 7 \/ ty = 8 \/ ty = 9 \/ ty = 10 \/ ty = 12 \/
  (forall df de bs, tdec_val_gen df de ty bs = None).
Proof.
  destruct ty as [|p]; [repeat right; intros; reflexivity|].
  do 4 (try (destruct p as [p|p|]));
    first [ left; reflexivity
          | right; left; reflexivity
          | right; right; left; reflexivity
          | right; right; right; left; reflexivity
          | right; right; right; right; left; reflexivity
          | right; right; right; right; right; left; reflexivity
          | right; right; right; right; right; right; left; reflexivity
          | right; right; right; right; right; right; right; left; reflexivity
          | right; right; right; right; right; right; right; right; left; reflexivity
          | right; right; right; right; right; right; right; right; right; left; reflexivity
          | right; right; right; right; right; right; right; right; right; right; left; reflexivity
          | repeat right; intros; reflexivity ].
Qed.

(** ** The mutual induction *)

(** the fuelled form of [ploc]: any fuel above the number of consumed bytes
    (plus [k]) is enough *)
Definition floc {A} (D : nat -> bytes -> option (A * bytes)) (k m : nat) (bs : bytes) (a : A) (r : bytes) : Prop :=
  exists pre, bs = pre ++ r /\ (m <= length pre)%nat /\
              forall f' rest, (length pre + k < f')%nat -> D f' (pre ++ rest) = Some (a, rest).

Definition fields_stmt (f : nat) : Prop :=
  forall last bs fs r, tdec_fields f last bs = Some (fs, r) ->
    floc (fun f' => tdec_fields f' last) 0 1 bs fs r /\ fields_ints_ok fs = true.

Definition elems_stmt (f : nat) : Prop :=
  forall elt n bs vs r, tdec_elems f elt n bs = Some (vs, r) ->
    floc (fun f' => tdec_elems f' elt n) 1 0 bs vs r /\ forallb ints_ok vs = true.

Definition val_stmt (f : nat) : Prop :=
  forall ty bs v r, tdec_val_gen (tdec_fields f) (tdec_elems f) ty bs = Some (v, r) ->
    floc (fun f' => tdec_val_gen (tdec_fields f') (tdec_elems f') ty) 0 1 bs v r /\ ints_ok v = true.

Ltac one_byte b := exists [b]; split; [reflexivity|]; split; [cbn [length]; lia|]; intros f' rest _; reflexivity.

Lemma val_of_fields_elems f : fields_stmt f -> elems_stmt f -> val_stmt f.
Proof.
  intros HF HE ty bs v r H.
  destruct (tdec_val_gen_cases ty) as [->|[->|[->|[->|[->|[->|[->|[->|[->|[->|[->|Hnone]]]]]]]]]]];
    [ | | | | | | | | | | | rewrite Hnone in H; discriminate H ]; unfold tdec_val_gen in H |- *.
  - (* 1: bool *)
    destruct bs as [|b bs']; [discriminate H|]. injection H as <- <-. split; [|reflexivity]. one_byte b.
  - destruct bs as [|b bs']; [discriminate H|]. injection H as <- <-. split; [|reflexivity]. one_byte b.
  - (* 3: i8 *)
    destruct bs as [|b bs']; [discriminate H|]. injection H as <- <-. split; [|reflexivity]. one_byte b.
  - (* 4: i16 *)
    destruct (dec_zz i16_lim bs) as [[z r0]|] eqn:E; [|discriminate H]. injection H as <- <-. split; [|reflexivity].
    destruct (dec_zz_local _ _ _ _ E) as (pre & -> & Hl & Hpre). exists pre. split; [reflexivity|]. split; [exact Hl|].
    intros f' rest _. rewrite Hpre. reflexivity.
  - (* 5: i32 *)
    destruct (dec_zz i32_lim bs) as [[z r0]|] eqn:E; [|discriminate H]. injection H as <- <-. split.
    + destruct (dec_zz_local _ _ _ _ E) as (pre & -> & Hl & Hpre). exists pre. split; [reflexivity|]. split; [exact Hl|].
      intros f' rest _. rewrite Hpre. reflexivity.
    + cbn [ints_ok]. unfold dec_zz in E. destruct (uleb_dec bs) as [[n r1]|]; [|discriminate E].
      destruct (n <? i32_lim) eqn:El; [|discriminate E]. injection E as <- _. apply unzigzag_i32. lia.
  - (* 6: i64 *)
    destruct (dec_zz i64_lim bs) as [[z r0]|] eqn:E; [|discriminate H]. injection H as <- <-. split; [|reflexivity].
    destruct (dec_zz_local _ _ _ _ E) as (pre & -> & Hl & Hpre). exists pre. split; [reflexivity|]. split; [exact Hl|].
    intros f' rest _. rewrite Hpre. reflexivity.
  - (* 7: double *)
    destruct (take_le 8 bs) as [[z r0]|] eqn:E; [|discriminate H]. injection H as <- <-. split; [|reflexivity].
    destruct (take_le_local _ _ _ _ E) as (pre & -> & Hl & Hpre). exists pre. split; [reflexivity|]. split; [lia|].
    intros f' rest _. rewrite Hpre. reflexivity.
  - (* 8: binary *)
    destruct (uleb_dec bs) as [[n r0]|] eqn:E; [|discriminate H].
    destruct (n <? len_lim) eqn:El; [|discriminate H].
    destruct (take_bytes n r0) as [[s r1]|] eqn:Et; [|discriminate H]. injection H as <- <-. split; [|reflexivity].
    destruct (uleb_dec_local _ _ _ E) as (pre & -> & Hl & Hpre).
    destruct (take_bytes_local _ _ _ _ Et) as (pre2 & -> & _ & Hpre2).
    exists (pre ++ pre2). split; [apply app_assoc|]. split; [rewrite app_length; lia|].
    intros f' rest _. rewrite <- app_assoc, Hpre, El, Hpre2. reflexivity.
  - (* 9: list *)
    destruct bs as [|h bs']; [discriminate H|].
    destruct (if h / 16 =? 15 then uleb_dec bs' else Some (h / 16, bs')) as [[n r0]|] eqn:E; [|discriminate H].
    destruct (n <? len_lim) eqn:El; [|discriminate H].
    destruct (tdec_elems f (h mod 16) n r0) as [[vs r1]|] eqn:Ee; [|discriminate H]. injection H as <- <-.
    destruct (HE _ _ _ _ _ Ee) as ((pre2 & -> & _ & Hpre2) & Hok). split; [|exact Hok].
    destruct (h / 16 =? 15) eqn:E15.
    + destruct (uleb_dec_local _ _ _ E) as (pre & -> & _ & Hpre).
      exists (h :: pre ++ pre2). split; [cbn [app]; rewrite app_assoc; reflexivity|]. split; [cbn [length]; lia|].
      intros f' rest Hf. cbn [length] in Hf. rewrite app_length in Hf.
      cbn [app]. rewrite E15, <- app_assoc, Hpre, El, (Hpre2 f' rest) by lia. reflexivity.
    + injection E as <- ->. exists (h :: pre2). split; [reflexivity|]. split; [cbn [length]; lia|].
      intros f' rest Hf. cbn [length] in Hf. cbn [app]. rewrite E15, El, (Hpre2 f' rest) by lia. reflexivity.
  - (* 10: set *)
    destruct bs as [|h bs']; [discriminate H|].
    destruct (if h / 16 =? 15 then uleb_dec bs' else Some (h / 16, bs')) as [[n r0]|] eqn:E; [|discriminate H].
    destruct (n <? len_lim) eqn:El; [|discriminate H].
    destruct (tdec_elems f (h mod 16) n r0) as [[vs r1]|] eqn:Ee; [|discriminate H]. injection H as <- <-.
    destruct (HE _ _ _ _ _ Ee) as ((pre2 & -> & _ & Hpre2) & Hok). split; [|exact Hok].
    destruct (h / 16 =? 15) eqn:E15.
    + destruct (uleb_dec_local _ _ _ E) as (pre & -> & _ & Hpre).
      exists (h :: pre ++ pre2). split; [cbn [app]; rewrite app_assoc; reflexivity|]. split; [cbn [length]; lia|].
      intros f' rest Hf. cbn [length] in Hf. rewrite app_length in Hf.
      cbn [app]. rewrite E15, <- app_assoc, Hpre, El, (Hpre2 f' rest) by lia. reflexivity.
    + injection E as <- ->. exists (h :: pre2). split; [reflexivity|]. split; [cbn [length]; lia|].
      intros f' rest Hf. cbn [length] in Hf. cbn [app]. rewrite E15, El, (Hpre2 f' rest) by lia. reflexivity.
  - (* 12: struct *)
    destruct (tdec_fields f 0 bs) as [[fs r0]|] eqn:E; [|discriminate H]. injection H as <- <-.
    destruct (HF _ _ _ _ E) as ((pre & -> & Hl & Hpre) & Hok). split; [|rewrite ints_ok_struct; exact Hok].
    exists pre. split; [reflexivity|]. split; [exact Hl|].
    intros f' rest Hf. rewrite (Hpre f' rest) by lia. reflexivity.
Qed.

Lemma dec_field_id_local last h bs id r :
  dec_field_id last h bs = Some (id, r) -> ploc (dec_field_id last h) 0 bs id r.
Proof.
  unfold dec_field_id. intros H. destruct (h / 16 =? 0).
  - destruct (dec_zz i16_lim bs) as [[z r0]|] eqn:E; [|discriminate H].
    destruct ((0 <=? z)%Z && (z <=? Z.of_N max_field_id)%Z) eqn:Ez; [|discriminate H]. injection H as <- <-.
    destruct (dec_zz_local _ _ _ _ E) as (pre & -> & _ & Hpre). exists pre. split; [reflexivity|]. split; [lia|].
    intros rest. rewrite Hpre, Ez. reflexivity.
  - destruct (last + h / 16 <=? max_field_id) eqn:E; [|discriminate H]. injection H as <- <-.
    exists []. split; [reflexivity|]. split; [cbn [length]; lia|]. intros rest. reflexivity.
Qed.

Lemma step_stmts f : fields_stmt f -> elems_stmt f -> fields_stmt (S f) /\ elems_stmt (S f).
Proof.
  intros HF HE. pose proof (val_of_fields_elems f HF HE) as HV. split.
  - intros last bs fs r H. destruct bs as [|h bs']; [discriminate H|].
    rewrite tdec_fields_S in H. destruct (h mod 16 =? 0) eqn:E0.
    + injection H as <- <-. split; [|reflexivity]. exists [h]. split; [reflexivity|]. split; [cbn [length]; lia|].
      intros f' rest Hf. destruct f' as [|f']; [lia|]. cbn [app]. rewrite tdec_fields_S, E0. reflexivity.
    + destruct (dec_field_id last h bs') as [[id r1]|] eqn:Eid; [|discriminate H].
      destruct (dec_field_id_local _ _ _ _ _ Eid) as (p1 & -> & _ & Hp1).
      destruct ((h mod 16 =? 1) || (h mod 16 =? 2)) eqn:Eb.
      * destruct (tdec_fields f id r1) as [[fs' r3]|] eqn:Ef; [|discriminate H]. injection H as <- <-.
        destruct (HF _ _ _ _ Ef) as ((p3 & -> & _ & Hp3) & Hok). split; [|cbn [fields_ints_ok ints_ok]; exact Hok].
        exists (h :: p1 ++ p3). split; [cbn [app]; rewrite app_assoc; reflexivity|]. split; [cbn [length]; lia|].
        intros f' rest Hf. cbn [length] in Hf. rewrite app_length in Hf. destruct f' as [|f']; [lia|]. cbn [app].
        rewrite tdec_fields_S, E0, <- app_assoc, Hp1, Eb, (Hp3 f' rest) by lia. reflexivity.
      * destruct (tdec_val_gen (tdec_fields f) (tdec_elems f) (h mod 16) r1) as [[v r2]|] eqn:Ev; [|discriminate H].
        destruct (tdec_fields f id r2) as [[fs' r3]|] eqn:Ef; [|discriminate H]. injection H as <- <-.
        destruct (HV _ _ _ _ Ev) as ((p2 & -> & _ & Hp2) & Hokv).
        destruct (HF _ _ _ _ Ef) as ((p3 & -> & _ & Hp3) & Hok).
        split; [|cbn [fields_ints_ok]; rewrite Hokv, Hok; reflexivity].
        exists (h :: p1 ++ p2 ++ p3). split; [cbn [app]; rewrite !app_assoc; reflexivity|]. split; [cbn [length]; lia|].
        intros f' rest Hf. cbn [length] in Hf. rewrite !app_length in Hf. destruct f' as [|f']; [lia|]. cbn [app].
        rewrite tdec_fields_S, E0, <- !app_assoc, Hp1, Eb, (Hp2 f' (p3 ++ rest)), (Hp3 f' rest) by lia. reflexivity.
  - intros elt n bs vs r H. rewrite tdec_elems_S in H. destruct (n =? 0) eqn:E0.
    + injection H as <- <-. split; [|reflexivity]. exists []. split; [reflexivity|]. split; [cbn [length]; lia|].
      intros f' rest Hf. destruct f' as [|f']; [lia|]. cbn [app]. rewrite tdec_elems_S, E0. reflexivity.
    + destruct (tdec_val_gen (tdec_fields f) (tdec_elems f) elt bs) as [[v r1]|] eqn:Ev; [|discriminate H].
      destruct (tdec_elems f elt (n - 1) r1) as [[vs' r2]|] eqn:Ee; [|discriminate H]. injection H as <- <-.
      destruct (HV _ _ _ _ Ev) as ((p1 & -> & Hl1 & Hp1) & Hokv).
      destruct (HE _ _ _ _ _ Ee) as ((p2 & -> & _ & Hp2) & Hok).
      split; [|cbn [forallb]; rewrite Hokv, Hok; reflexivity].
      exists (p1 ++ p2). split; [apply app_assoc|]. split; [lia|].
      intros f' rest Hf. rewrite app_length in Hf. destruct f' as [|f']; [lia|].
      rewrite tdec_elems_S, E0, <- app_assoc, (Hp1 f' (p2 ++ rest)), (Hp2 f' rest) by lia. reflexivity.
Qed.

Lemma all_stmts f : fields_stmt f /\ elems_stmt f.
Proof.
  induction f as [|f [HF HE]].
  - split; [intros last bs fs r H | intros elt n bs vs r H]; discriminate H.
  - apply step_stmts; assumption.
Qed.

(** ** The entry points *)

Theorem tdec_local bs fs r :
  tdec bs = Some (fs, r) ->
  (exists pre, bs = pre ++ r /\ (1 <= length pre)%nat /\ forall rest, tdec (pre ++ rest) = Some (fs, rest)) /\
  fields_ints_ok fs = true.
Proof.
  unfold tdec, tdec_struct. intros H.
  destruct (proj1 (all_stmts _) _ _ _ _ H) as ((pre & Hbs & Hl & Hpre) & Hok). split; [|exact Hok].
  exists pre. split; [exact Hbs|]. split; [exact Hl|].
  intros rest. apply Hpre. rewrite app_length. lia.
Qed.

Theorem dec_page_header_local bs ph r :
  dec_page_header bs = Some (ph, r) ->
  exists pre, bs = pre ++ r /\ (1 <= length pre)%nat /\ forall rest, dec_page_header (pre ++ rest) = Some (ph, rest).
Proof.
  unfold dec_page_header. intros H. destruct (tdec bs) as [[fs r0]|] eqn:E; [|discriminate H].
  destruct (page_header_of_fields fs) as [ph0|] eqn:Ep; [|discriminate H]. injection H as <- <-.
  destruct (tdec_local _ _ _ E) as ((pre & Hbs & Hl & Hpre) & _). exists pre. split; [exact Hbs|]. split; [exact Hl|].
  intros rest. rewrite Hpre, Ep. reflexivity.
Qed.

Theorem dec_file_meta_local bs fm r :
  dec_file_meta bs = Some (fm, r) ->
  exists pre, bs = pre ++ r /\ (1 <= length pre)%nat /\ forall rest, dec_file_meta (pre ++ rest) = Some (fm, rest).
Proof.
  unfold dec_file_meta. intros H. destruct (tdec bs) as [[fs r0]|] eqn:E; [|discriminate H].
  destruct (file_meta_of_fields fs) as [fm0|] eqn:Ep; [|discriminate H]. injection H as <- <-.
  destruct (tdec_local _ _ _ E) as ((pre & Hbs & Hl & Hpre) & _). exists pre. split; [exact Hbs|]. split; [exact Hl|].
  intros rest. rewrite Hpre, Ep. reflexivity.
Qed.

(** ** The int32 fields of a decoded page header *)

Lemma fget_ints_ok id fs v : fields_ints_ok fs = true -> fget id fs = Some v -> ints_ok v = true.
Proof.
  induction fs as [|[i x] fs IH]; intros Hok Hg; [discriminate Hg|].
  cbn [fields_ints_ok] in Hok. apply andb_prop in Hok. destruct Hok as [Hx Hfs].
  cbn [fget] in Hg. destruct (fget id fs) as [w|] eqn:E.
  - injection Hg as <-. apply IH; [exact Hfs | reflexivity].
  - destruct (i =? id); [|discriminate Hg]. injection Hg as <-. exact Hx.
Qed.

Lemma req_i32_ok id fs z : fields_ints_ok fs = true -> req as_i32 id fs = Some z -> i32_ok z = true.
Proof.
  unfold req. intros Hok H. destruct (fget id fs) as [v|] eqn:E; [|discriminate H].
  pose proof (fget_ints_ok _ _ _ Hok E) as Hv. destruct v; try discriminate H.
  cbn [as_i32] in H. injection H as <-. exact Hv.
Qed.

Theorem dec_page_header_i32 bs ph r :
  dec_page_header bs = Some (ph, r) ->
  i32_ok (ph_uncompressed_size ph) = true /\ i32_ok (ph_compressed_size ph) = true /\
  match ph_data ph with Some d => i32_ok (dph_num_values d) = true | None => True end.
Proof.
  unfold dec_page_header. intros H. destruct (tdec bs) as [[fs r0]|] eqn:E; [|discriminate H].
  destruct (page_header_of_fields fs) as [ph0|] eqn:Ep; [|discriminate H]. injection H as <- <-.
  destruct (tdec_local _ _ _ E) as (_ & Hok).
  unfold page_header_of_fields in Ep.
  destruct (req as_i32 1 fs) as [a|] eqn:Ea; [|discriminate Ep].
  destruct (req as_i32 2 fs) as [b|] eqn:Eb; [|discriminate Ep].
  destruct (req as_i32 3 fs) as [c|] eqn:Ec; [|discriminate Ep].
  destruct (opt as_i32 4 fs) as [d|]; [|discriminate Ep].
  destruct (opt (as_struct data_page_header_of_fields) 5 fs) as [e|] eqn:Ee; [|discriminate Ep].
  destruct (opt (as_struct index_page_header_of_fields) 6 fs) as [f6|]; [|discriminate Ep].
  destruct (opt (as_struct dictionary_page_header_of_fields) 7 fs) as [g|]; [|discriminate Ep].
  destruct (opt (as_struct data_page_header_v2_of_fields) 8 fs) as [h|]; [|discriminate Ep].
  injection Ep as <-. cbn [ph_uncompressed_size ph_compressed_size ph_data].
  split; [exact (req_i32_ok _ _ _ Hok Eb)|]. split; [exact (req_i32_ok _ _ _ Hok Ec)|].
  destruct e as [dph|]; [|exact I].
  unfold opt in Ee. destruct (fget 5 fs) as [v|] eqn:E5; [|discriminate Ee].
  pose proof (fget_ints_ok _ _ _ Hok E5) as Hv.
  destruct v; cbn [as_struct] in Ee; try discriminate Ee.
  rewrite ints_ok_struct in Hv.
  destruct (data_page_header_of_fields fs0) as [d0|] eqn:Ed; [|discriminate Ee]. injection Ee as <-.
  unfold data_page_header_of_fields in Ed.
  destruct (req as_i32 1 fs0) as [a1|] eqn:Ea1; [|discriminate Ed].
  destruct (req as_i32 2 fs0) as [b1|]; [|discriminate Ed].
  destruct (req as_i32 3 fs0) as [c1|]; [|discriminate Ed].
  destruct (req as_i32 4 fs0) as [d1|]; [|discriminate Ed].
  destruct (opt (as_struct statistics_of_fields) 5 fs0) as [e1|]; [|discriminate Ed].
  injection Ed as <-. cbn [dph_num_values]. exact (req_i32_ok _ _ _ Hv Ea1).
Qed.

Print Assumptions dec_page_header_local.
Print Assumptions dec_file_meta_local.
Print Assumptions dec_page_header_i32.
