(** * RleSpecProofs: the specification decoder inverts the specification
    encoder of the RLE/bit-packed hybrid, its image is well formed, and the
    specification bit-packing round-trips.  The bit-packing facts hold for
    every width; the statements keep [In w widths] because that is what the
    library side needs. *)
From Coq Require Import List NArith ZArith Lia Bool Arith.
From Coq Require Import ZifyN ZifyNat ZifyBool.
From PQ Require Import Bytes Varint VarintProofs Bitpack BitpackProofs RleSpec.
Import ListNotations.
Local Open Scope N_scope.

(** ** List helpers *)

Lemma firstn_app_len {A} (n : nat) (a b : list A) : length a = n -> firstn n (a ++ b) = a.
Proof. intros <-. apply firstn_app_exact. Qed.

Lemma skipn_app_len {A} (n : nat) (a b : list A) : length a = n -> skipn n (a ++ b) = b.
Proof. intros <-. apply skipn_app_exact. Qed.

(** ** The specification word as a base-[2^w] numeral *)

Fixpoint digits_val (w : N) (vals : list N) : N :=
  match vals with
  | [] => 0
  | v :: r => v mod 2 ^ w + 2 ^ w * digits_val w r
  end.

Lemma pow2_pos k : 0 < 2 ^ k.
Proof. apply N.neq_0_lt_0, N.pow_nonzero. lia. Qed.

Lemma spec_word_digits w i vals : spec_word w i vals = 2 ^ (w * i) * digits_val w vals.
Proof.
  revert i; induction vals as [|v r IH]; intros i; cbn [spec_word digits_val]; [lia|].
  rewrite IH.
  replace (w * (i + 1)) with (w + w * i) by lia.
  rewrite N.pow_add_r.
  pose proof (N.mod_lt v (2 ^ w) (N.pow_nonzero 2 w ltac:(lia))) as Hm.
  remember (v mod 2 ^ w) as m eqn:Em. remember (digits_val w r) as d eqn:Ed.
  replace (2 ^ w * 2 ^ (w * i) * d) with (N.shiftl (d * 2 ^ w) (w * i))
    by (rewrite N.shiftl_mul_pow2; ring).
  rewrite <- N.shiftl_lor, lor_disjoint by exact Hm.
  rewrite N.shiftl_mul_pow2. ring.
Qed.

Lemma digits_val_bound w vals : digits_val w vals < 2 ^ (w * nlen vals).
Proof.
  induction vals as [|v r IH]; cbn [digits_val].
  - unfold nlen. cbn [length]. rewrite N.mul_0_r. cbn. lia.
  - replace (w * nlen (v :: r)) with (w + w * nlen r) by (unfold nlen; cbn [length]; lia).
    rewrite N.pow_add_r.
    pose proof (N.mod_lt v (2 ^ w) (N.pow_nonzero 2 w ltac:(lia))) as Hm.
    remember (v mod 2 ^ w) as m eqn:Em. remember (digits_val w r) as d eqn:Ed.
    remember (2 ^ (w * nlen r)) as q eqn:Eq. remember (2 ^ w) as b eqn:Eb.
    assert (H : b * (d + 1) <= b * q) by (apply N.mul_le_mono_l; lia).
    lia.
Qed.

Lemma digits_val_digit w (i : nat) vals :
  (digits_val w vals / 2 ^ (w * N.of_nat i)) mod 2 ^ w = nth i vals 0 mod 2 ^ w.
Proof.
  assert (Hb : 2 ^ w <> 0) by (apply N.pow_nonzero; lia).
  revert vals; induction i as [|i IH]; intros vals.
  - rewrite N.mul_0_r, N.pow_0_r, N.div_1_r.
    destruct vals as [|v r]; cbn [digits_val nth]; [reflexivity|].
    rewrite (N.mul_comm (2 ^ w)), N.mod_add by exact Hb. apply N.mod_mod. exact Hb.
  - replace (w * N.of_nat (S i)) with (w + w * N.of_nat i) by lia.
    rewrite N.pow_add_r, <- N.div_div by (try exact Hb; apply N.pow_nonzero; lia).
    destruct vals as [|v r]; cbn [digits_val nth].
    + rewrite !N.div_0_l by (try exact Hb; apply N.pow_nonzero; lia). reflexivity.
    + rewrite (N.mul_comm (2 ^ w)), N.div_add by exact Hb.
      rewrite (N.div_small (v mod 2 ^ w)) by (apply N.mod_lt; exact Hb).
      rewrite N.add_0_l. apply IH.
Qed.

Lemma pow256_pow2 w : 256 ^ w = 2 ^ (w * 8).
Proof. change 256 with (2 ^ 8). rewrite <- N.pow_mul_r. f_equal. lia. Qed.

Lemma le_dec_spec_pack w g : length g = 8%nat -> le_dec (spec_pack w g) = digits_val w g.
Proof.
  intros Hl. unfold spec_pack. rewrite spec_word_digits, N.mul_0_r, N.pow_0_r, N.mul_1_l.
  apply le_dec_enc. rewrite N2Nat.id, pow256_pow2.
  pose proof (digits_val_bound w g) as Hd. unfold nlen in Hd. rewrite Hl in Hd. exact Hd.
Qed.

Lemma spec_unpack_elem w g (i : nat) :
  length g = 8%nat -> Forall (fun v => v < 2 ^ w) g -> (i < 8)%nat ->
  N.shiftr (le_dec (spec_pack w g)) (w * N.of_nat i) mod 2 ^ w = nth i g 0.
Proof.
  intros Hl Hv Hi. rewrite le_dec_spec_pack by exact Hl.
  rewrite N.shiftr_div_pow2, digits_val_digit. apply N.mod_small.
  apply Forall_nth; [exact Hv | lia].
Qed.

(** valid for every width *)
Lemma spec_unpack_pack_gen w g :
  length g = 8%nat -> Forall (fun v => v < 2 ^ w) g -> spec_unpack w (spec_pack w g) = g.
Proof.
  intros Hl Hv. unfold spec_unpack.
  change [0; 1; 2; 3; 4; 5; 6; 7] with (map N.of_nat [0; 1; 2; 3; 4; 5; 6; 7]%nat).
  rewrite map_map. cbn [map].
  rewrite !spec_unpack_elem by (assumption || lia).
  destruct g as [|v0 [|v1 [|v2 [|v3 [|v4 [|v5 [|v6 [|v7 [|v8 g]]]]]]]]]; try discriminate Hl.
  reflexivity.
Qed.

Lemma spec_unpack_pack w g :
  In w widths -> length g = 8%nat -> Forall (fun v => v < 2 ^ w) g ->
  spec_unpack w (spec_pack w g) = g.
Proof. intros _. apply spec_unpack_pack_gen. Qed.

Lemma spec_pack_length w g : length (spec_pack w g) = N.to_nat w.
Proof. unfold spec_pack. apply le_enc_length. Qed.

Lemma spec_pack_wf w g : wf_bytes (spec_pack w g).
Proof. unfold spec_pack. apply le_enc_wf. Qed.

(** ** Groups *)

Lemma groupb_spec w g :
  groupb w g = true <-> length g = 8%nat /\ Forall (fun v => v < 2 ^ w) g.
Proof.
  unfold groupb. rewrite andb_true_iff, Nat.eqb_eq, forallb_forall, Forall_forall.
  unfold valb. split; intros [Hl Hv]; (split; [exact Hl|]); intros x Hx; specialize (Hv x Hx); lia.
Qed.

Lemma spec_unpack_groupb w bs : groupb w (spec_unpack w bs) = true.
Proof.
  apply groupb_spec. unfold spec_unpack. split; [reflexivity|].
  apply Forall_forall. intros x Hx. apply in_map_iff in Hx. destruct Hx as [i [<- _]].
  apply N.mod_lt. apply N.pow_nonzero. lia.
Qed.

Lemma concat_spec_pack_length w gs :
  length (concat (map (spec_pack w) gs)) = (N.to_nat w * length gs)%nat.
Proof.
  induction gs as [|g gs IH]; cbn [map concat length]; [lia|].
  rewrite app_length, spec_pack_length, IH. lia.
Qed.

Lemma take_groups_encode_gen w gs rest :
  Forall (fun g => groupb w g = true) gs ->
  take_groups w (length gs) (concat (map (spec_pack w) gs) ++ rest) = Some (gs, rest).
Proof.
  induction 1 as [|g gs Hg Hgs IH]; cbn [length map concat take_groups]; [reflexivity|].
  rewrite <- app_assoc.
  rewrite firstn_app_len by apply spec_pack_length.
  rewrite skipn_app_len by apply spec_pack_length.
  rewrite IH.
  destruct (Nat.leb_spec (N.to_nat w) (length (spec_pack w g ++ concat (map (spec_pack w) gs) ++ rest)))
    as [_|Hlt].
  - apply groupb_spec in Hg. destruct Hg as [Hl Hv].
    rewrite spec_unpack_pack_gen by assumption. reflexivity.
  - rewrite app_length, spec_pack_length in Hlt. lia.
Qed.

Lemma take_groups_encode w gs rest :
  In w widths -> Forall (fun g => groupb w g = true) gs ->
  take_groups w (length gs) (concat (map (spec_pack w) gs) ++ rest) = Some (gs, rest).
Proof. intros _. apply take_groups_encode_gen. Qed.

Lemma take_groups_image w n bs gs rest :
  take_groups w n bs = Some (gs, rest) ->
  length gs = n /\ Forall (fun g => groupb w g = true) gs.
Proof.
  revert bs gs rest; induction n as [|n IH]; intros bs gs rest H; cbn [take_groups] in H.
  - injection H as <- _. split; [reflexivity | constructor].
  - destruct (Nat.leb (N.to_nat w) (length bs)); [|discriminate H].
    destruct (take_groups w n (skipn (N.to_nat w) bs)) as [[gs' rest']|] eqn:E; [|discriminate H].
    injection H as <- _. destruct (IH _ _ _ E) as [Hl Hf].
    split; [cbn [length]; lia|]. constructor; [apply spec_unpack_groupb | exact Hf].
Qed.

(** ** Distribution over [++] *)

Lemma runs_values_app a b : runs_values (a ++ b) = runs_values a ++ runs_values b.
Proof. unfold runs_values. rewrite map_app, concat_app. reflexivity. Qed.

Lemma runs_encode_app w a b : runs_encode w (a ++ b) = runs_encode w a ++ runs_encode w b.
Proof. unfold runs_encode. rewrite map_app, concat_app. reflexivity. Qed.

Lemma runs_encode_cons w r rs : runs_encode w (r :: rs) = run_encode w r ++ runs_encode w rs.
Proof. reflexivity. Qed.

(** ** One step of the specification decoder *)

Definition decode_step (f : nat) (w : N) (bs : bytes) : option (list run) :=
  match uleb_dec bs with
  | None => None
  | Some (h, r) =>
      if N.even h then
        match take_le (value_bytes w) r with
        | Some (v, r') =>
            if (1 <=? h / 2) && valb w v then
              match hybrid_decode_fuel f w r' with
              | Some rs => Some (RRle (h / 2) v :: rs)
              | None => None
              end
            else None
        | None => None
        end
      else
        if h / 2 =? 0 then None
        else if N.of_nat (length r) <? w * (h / 2) then None
        else
          match take_groups w (N.to_nat (h / 2)) r with
          | Some (gs, r') =>
              match hybrid_decode_fuel f w r' with
              | Some rs => Some (RBp gs :: rs)
              | None => None
              end
          | None => None
          end
  end.

Lemma hybrid_decode_fuel_S f w bs :
  hybrid_decode_fuel (S f) w bs = match bs with [] => Some [] | _ => decode_step f w bs end.
Proof. destruct bs; reflexivity. Qed.

Lemma hybrid_decode_fuel_nonempty f w bs :
  bs <> [] -> hybrid_decode_fuel (S f) w bs = decode_step f w bs.
Proof. intros Hb. rewrite hybrid_decode_fuel_S. destruct bs; [congruence | reflexivity]. Qed.

Lemma even_double c : N.even (2 * c) = true.
Proof. rewrite N.even_mul. reflexivity. Qed.

Lemma even_double_succ g : N.even (2 * g + 1) = false.
Proof. rewrite N.add_comm, N.even_add_mul_2. reflexivity. Qed.

Lemma value_bytes_fits w v : v < 2 ^ w -> v < 256 ^ N.of_nat (value_bytes w).
Proof.
  intros Hv. unfold value_bytes. rewrite N2Nat.id, pow256_pow2.
  eapply N.lt_le_trans; [exact Hv|]. apply N.pow_le_mono_r; lia.
Qed.

Lemma run_encode_nonempty w r : run_encode w r <> [].
Proof.
  destruct r as [c v|gs]; cbn [run_encode]; intros H; apply app_eq_nil in H;
    destruct H as [H _]; exact (uleb_enc_nonempty _ H).
Qed.

Lemma decode_step_rle f w c v tail rs :
  1 <= c -> v < 2 ^ w -> hybrid_decode_fuel f w tail = Some rs ->
  decode_step f w (run_encode w (RRle c v) ++ tail) = Some (RRle c v :: rs).
Proof.
  intros Hc Hv Ht. unfold decode_step. cbn [run_encode].
  rewrite <- app_assoc, uleb_dec_enc, even_double.
  rewrite take_le_enc by (apply value_bytes_fits; exact Hv).
  replace (2 * c / 2) with c by lia.
  replace ((1 <=? c) && valb w v) with true by (unfold valb; lia).
  rewrite Ht. reflexivity.
Qed.

Lemma decode_step_bp f w gs tail rs :
  gs <> [] -> Forall (fun g => groupb w g = true) gs -> hybrid_decode_fuel f w tail = Some rs ->
  decode_step f w (run_encode w (RBp gs) ++ tail) = Some (RBp gs :: rs).
Proof.
  intros Hne Hgs Ht. unfold decode_step. cbn [run_encode].
  rewrite <- app_assoc, uleb_dec_enc, even_double_succ.
  replace ((2 * nlen gs + 1) / 2) with (nlen gs) by lia.
  assert (Hlen : nlen gs <> 0) by (destruct gs; [congruence | unfold nlen; cbn [length]; lia]).
  destruct (N.eqb_spec (nlen gs) 0) as [H0|_]; [contradiction|].
  rewrite app_length, concat_spec_pack_length.
  destruct (N.ltb_spec (N.of_nat (N.to_nat w * length gs + length tail)) (w * nlen gs)) as [Hlt|_].
  - exfalso. unfold nlen in Hlt. lia.
  - unfold nlen at 1. rewrite Nat2N.id, take_groups_encode_gen by exact Hgs.
    rewrite Ht. reflexivity.
Qed.

Lemma wf_run_rle w c v : wf_run w (RRle c v) <-> 1 <= c /\ v < 2 ^ w.
Proof. unfold wf_run, wf_runb, valb. lia. Qed.

Lemma wf_run_bp w gs :
  wf_run w (RBp gs) <-> gs <> [] /\ Forall (fun g => groupb w g = true) gs.
Proof.
  unfold wf_run, wf_runb. rewrite andb_true_iff, negb_true_iff, Nat.eqb_neq, forallb_forall, Forall_forall.
  split; intros [Hn Hf]; (split; [|exact Hf]).
  - intros ->. apply Hn. reflexivity.
  - destruct gs; [congruence | discriminate].
Qed.

(** ** decode (encode rs) = rs *)

Lemma hybrid_decode_fuel_encode w rs : forall f,
  Forall (wf_run w) rs -> (length (runs_encode w rs) < f)%nat ->
  hybrid_decode_fuel f w (runs_encode w rs) = Some rs.
Proof.
  induction rs as [|r rs IH]; intros f Hwf Hf.
  - destruct f as [|f]; [lia | reflexivity].
  - destruct f as [|f]; [lia|].
    rewrite runs_encode_cons in Hf |- *. rewrite app_length in Hf.
    assert (Hr : (0 < length (run_encode w r))%nat).
    { pose proof (run_encode_nonempty w r) as Hne.
      destruct (run_encode w r); [congruence | cbn [length]; lia]. }
    inversion Hwf as [|r0 rs0 Hwr Hwrs]; subst r0 rs0.
    rewrite hybrid_decode_fuel_nonempty.
    2:{ intros H. apply app_eq_nil in H. destruct H as [H _]. exact (run_encode_nonempty _ _ H). }
    specialize (IH f Hwrs ltac:(lia)).
    destruct r as [c v|gs].
    + apply wf_run_rle in Hwr. destruct Hwr as [Hc Hv]. apply decode_step_rle; assumption.
    + apply wf_run_bp in Hwr. destruct Hwr as [Hn Hg]. apply decode_step_bp; assumption.
Qed.

Lemma hybrid_decode_encode_gen w rs :
  Forall (wf_run w) rs -> hybrid_decode w (runs_encode w rs) = Some rs.
Proof. intros Hwf. unfold hybrid_decode. apply hybrid_decode_fuel_encode; [exact Hwf | lia]. Qed.

Theorem hybrid_decode_encode w rs :
  In w widths -> Forall (wf_run w) rs -> hybrid_decode w (runs_encode w rs) = Some rs.
Proof. intros _. apply hybrid_decode_encode_gen. Qed.

Lemma hybrid_decode_framed_encode_gen w rs rest :
  Forall (wf_run w) rs -> nlen (runs_encode w rs) < 2 ^ 32 ->
  hybrid_decode_framed w (hybrid_encode w rs ++ rest) = Some (rs, rest).
Proof.
  intros Hwf Hlen. unfold hybrid_decode_framed, hybrid_encode.
  rewrite <- app_assoc, take_le_enc by exact Hlen.
  destruct (N.ltb_spec (N.of_nat (length (runs_encode w rs ++ rest))) (nlen (runs_encode w rs)))
    as [Hlt|_].
  - exfalso. rewrite app_length in Hlt. unfold nlen in Hlt. lia.
  - unfold nlen. rewrite Nat2N.id, firstn_app_exact, skipn_app_exact.
    rewrite hybrid_decode_encode_gen by exact Hwf. reflexivity.
Qed.

Theorem hybrid_decode_framed_encode w rs rest :
  In w widths -> Forall (wf_run w) rs -> nlen (runs_encode w rs) < 2 ^ 32 ->
  hybrid_decode_framed w (hybrid_encode w rs ++ rest) = Some (rs, rest).
Proof. intros _. apply hybrid_decode_framed_encode_gen. Qed.

(** ** The decoder's image is well formed *)

Lemma decode_step_wf f w bs rs :
  (forall bs' rs', hybrid_decode_fuel f w bs' = Some rs' -> Forall (wf_run w) rs') ->
  decode_step f w bs = Some rs -> Forall (wf_run w) rs.
Proof.
  intros IH H. unfold decode_step in H.
  destruct (uleb_dec bs) as [[h r]|]; [|discriminate H].
  destruct (N.even h).
  - destruct (take_le (value_bytes w) r) as [[v r']|]; [|discriminate H].
    destruct ((1 <=? h / 2) && valb w v) eqn:Hc; [|discriminate H].
    destruct (hybrid_decode_fuel f w r') as [rs'|] eqn:E; [|discriminate H].
    injection H as <-. constructor; [exact Hc | exact (IH _ _ E)].
  - destruct (N.eqb_spec (h / 2) 0) as [_|Hg]; [discriminate H|].
    destruct (N.of_nat (length r) <? w * (h / 2)); [discriminate H|].
    destruct (take_groups w (N.to_nat (h / 2)) r) as [[gs r']|] eqn:Eg; [|discriminate H].
    destruct (hybrid_decode_fuel f w r') as [rs'|] eqn:E; [|discriminate H].
    injection H as <-. destruct (take_groups_image _ _ _ _ _ Eg) as [Hl Hf].
    constructor; [|exact (IH _ _ E)].
    apply wf_run_bp. split; [|exact Hf].
    intros ->. cbn [length] in Hl. lia.
Qed.

Lemma hybrid_decode_fuel_wf f w : forall bs rs,
  hybrid_decode_fuel f w bs = Some rs -> Forall (wf_run w) rs.
Proof.
  induction f as [|f IH]; intros bs rs H; [discriminate H|].
  rewrite hybrid_decode_fuel_S in H.
  destruct bs as [|b bs].
  - injection H as <-. constructor.
  - exact (decode_step_wf f w _ rs IH H).
Qed.

Theorem hybrid_decode_wf w bs rs : hybrid_decode w bs = Some rs -> Forall (wf_run w) rs.
Proof. unfold hybrid_decode. apply hybrid_decode_fuel_wf. Qed.

Print Assumptions hybrid_decode_encode.
Print Assumptions hybrid_decode_framed_encode.
Print Assumptions hybrid_decode_wf.
