(** * ReaderIoProofs: the reader of [Reader.v] against its source.

    Any property [P] of source computations that holds of the primitives and
    is preserved by [bind] ([io_closed P], see [IoProofs.v]) holds of every
    function of the reader (Section [Lift]).  Instantiated with [sched_indep]
    and [fault_local] and pushed through [iterate] / [read_all_src]:

    - [read_frag_indep] (C08): the outcome of a whole reader life does not
      depend on how the source fragments its reads;
    - [src_fault_safe] (C10): a failing source operation either is never
      reached (identical outcome) or surfaces as an error (constructor error,
      or Error() non-nil after Next returned false), the records delivered
      before it being a prefix of the fault-free ones; it never introduces a
      panic.

    Both hold for arbitrary file bytes, shapes and codecs. *)
From Coq Require Import List NArith ZArith Lia Bool Arith PeanoNat.
From Coq Require Import ZifyN ZifyNat ZifyBool.
From PQ Require Import Bytes Schema Dremel Rle Plain MetaTypes Thrift Meta Io Reader IoProofs.
Import ListNotations.
Local Open Scope N_scope.
Local Open Scope io_scope.

(** ** Lifting a closed property through the reader *)

Section Lift.

Variable P : forall A : Type, M A -> Prop.
Hypothesis HP : io_closed P.
Variable decompress : Z -> bytes -> option bytes.

Lemma P_lift {A} (r : result A) : P A (lift r).
Proof.
  destruct r as [a| |]; unfold lift;
    [apply (ic_ret P HP) | apply (ic_err P HP) | apply (ic_panic P HP)].
Qed.

(** one structural step on the head of a monadic term; [k] closes recursive calls *)
Ltac io_step k :=
  first
    [ apply (ic_ret P HP) | apply (ic_err P HP) | apply (ic_panic P HP)
    | apply (ic_get_pos P HP) | apply (ic_seek_start P HP) | apply (ic_seek_end P HP)
    | apply (ic_read_full P HP) | apply (ic_read_struct P HP) | apply P_lift
    | k
    | apply (ic_bind P HP); [ | let x := fresh "x" in intros x ]
    | match goal with
      | |- P _ (if ?b then _ else _) => destruct b
      | |- P _ (match ?o with Some _ => _ | None => _ end) => destruct o
      | |- P _ (let '(_, _) := ?x in _) => destruct x
      end
    | progress cbv zeta ].

Ltac io_auto_k k := repeat io_step k.
Ltac io_auto := io_auto_k fail.

Lemma P_page_data codec ph : P bytes (page_data decompress codec ph).
Proof. unfold page_data. io_auto. Qed.

Lemma P_do_read_required fuel codec pgn : forall nread acc sizes,
  P (bytes * list nat)%type (do_read_required decompress fuel codec pgn nread acc sizes).
Proof.
  induction fuel as [|f IH]; intros nread acc sizes; cbn [do_read_required].
  - io_auto.
  - io_auto_k ltac:(first [apply P_page_data | apply IH]).
Qed.

Lemma P_do_read_optional fuel codec maxdef maxrep size : forall nread acc,
  P opt_acc (do_read_optional decompress fuel codec maxdef maxrep size nread acc).
Proof.
  induction fuel as [|f IH]; intros nread acc; cbn [do_read_optional].
  - io_auto.
  - io_auto_k ltac:(first [apply P_page_data | apply IH]).
Qed.

Lemma P_read_chunk c cm : P (list entry) (read_chunk decompress c cm).
Proof.
  unfold read_chunk.
  io_auto_k ltac:(first [apply P_do_read_required | apply P_do_read_optional]).
Qed.

Lemma P_read_chunks cols ccs : forall acc, P (list (list entry)) (read_chunks decompress cols ccs acc).
Proof.
  induction ccs as [|cc rest IH]; intros acc; cbn [read_chunks].
  - io_auto.
  - io_auto_k ltac:(first [apply P_read_chunk | apply IH]).
Qed.

Lemma P_read_row_group fs rg : P (list value) (read_row_group decompress fs rg).
Proof. unfold read_row_group. io_auto_k ltac:(apply P_read_chunks). Qed.

Lemma P_open_footer fs : P file_meta (open_footer fs).
Proof. unfold open_footer. io_auto. Qed.

(** [load_nonempty] is written with explicit matches on the result; each step is
    convertible to a [bind] of [read_row_group] *)
Lemma P_load_nonempty fs : forall rgs,
  P (list value * Z * list row_group)%type (load_nonempty decompress fs rgs).
Proof.
  induction rgs as [|rg rest IH].
  - change (P (list value * Z * list row_group)%type (ret ([], 0%Z, []))).
    apply (ic_ret P HP).
  - change (P (list value * Z * list row_group)%type
              (bind (read_row_group decompress fs rg)
                    (fun rrecs s' => if (0 <? rg_num_rows rg)%Z
                                     then ret (rrecs, rg_num_rows rg, rest) s'
                                     else load_nonempty decompress fs rest s'))).
    apply (ic_bind P HP); [apply P_read_row_group|].
    intros rrecs. destruct (0 <? rg_num_rows rg)%Z.
    + apply (ic_ret P HP).
    + exact IH.
Qed.

End Lift.

(** ** The two instances *)

Section Instances.

Variable decompress : Z -> bytes -> option bytes.

Lemma sched_indep_lift {A} (r : result A) : sched_indep (lift r).
Proof. apply (P_lift (@sched_indep) sched_indep_closed). Qed.
Lemma sched_indep_page_data codec ph : sched_indep (page_data decompress codec ph).
Proof. apply (P_page_data (@sched_indep) sched_indep_closed). Qed.
Lemma sched_indep_do_read_required fuel codec pgn nread acc sizes :
  sched_indep (do_read_required decompress fuel codec pgn nread acc sizes).
Proof. apply (P_do_read_required (@sched_indep) sched_indep_closed). Qed.
Lemma sched_indep_do_read_optional fuel codec maxdef maxrep size nread acc :
  sched_indep (do_read_optional decompress fuel codec maxdef maxrep size nread acc).
Proof. apply (P_do_read_optional (@sched_indep) sched_indep_closed). Qed.
Lemma sched_indep_read_chunk c cm : sched_indep (read_chunk decompress c cm).
Proof. apply (P_read_chunk (@sched_indep) sched_indep_closed). Qed.
Lemma sched_indep_read_chunks cols ccs acc : sched_indep (read_chunks decompress cols ccs acc).
Proof. apply (P_read_chunks (@sched_indep) sched_indep_closed). Qed.
Lemma sched_indep_read_row_group fs rg : sched_indep (read_row_group decompress fs rg).
Proof. apply (P_read_row_group (@sched_indep) sched_indep_closed). Qed.
Lemma sched_indep_open_footer fs : sched_indep (open_footer fs).
Proof. apply (P_open_footer (@sched_indep) sched_indep_closed). Qed.
Lemma sched_indep_load_nonempty fs rgs : sched_indep (load_nonempty decompress fs rgs).
Proof. apply (P_load_nonempty (@sched_indep) sched_indep_closed). Qed.

Lemma fault_local_lift {A} (r : result A) : fault_local (lift r).
Proof. apply (P_lift (@fault_local) fault_local_closed). Qed.
Lemma fault_local_page_data codec ph : fault_local (page_data decompress codec ph).
Proof. apply (P_page_data (@fault_local) fault_local_closed). Qed.
Lemma fault_local_do_read_required fuel codec pgn nread acc sizes :
  fault_local (do_read_required decompress fuel codec pgn nread acc sizes).
Proof. apply (P_do_read_required (@fault_local) fault_local_closed). Qed.
Lemma fault_local_do_read_optional fuel codec maxdef maxrep size nread acc :
  fault_local (do_read_optional decompress fuel codec maxdef maxrep size nread acc).
Proof. apply (P_do_read_optional (@fault_local) fault_local_closed). Qed.
Lemma fault_local_read_chunk c cm : fault_local (read_chunk decompress c cm).
Proof. apply (P_read_chunk (@fault_local) fault_local_closed). Qed.
Lemma fault_local_read_chunks cols ccs acc : fault_local (read_chunks decompress cols ccs acc).
Proof. apply (P_read_chunks (@fault_local) fault_local_closed). Qed.
Lemma fault_local_read_row_group fs rg : fault_local (read_row_group decompress fs rg).
Proof. apply (P_read_row_group (@fault_local) fault_local_closed). Qed.
Lemma fault_local_open_footer fs : fault_local (open_footer fs).
Proof. apply (P_open_footer (@fault_local) fault_local_closed). Qed.
Lemma fault_local_load_nonempty fs rgs : fault_local (load_nonempty decompress fs rgs).
Proof. apply (P_load_nonempty (@fault_local) fault_local_closed). Qed.

(** ** C08: fragmentation independence of a whole reader life *)

Lemma iterate_frag fs rows fuel : forall cursor rgcursor rgcount cur rgs nexts recs s1 s2,
  src_equiv s1 s2 ->
  iterate decompress fuel fs rows cursor rgcursor rgcount cur rgs nexts recs s1 =
  iterate decompress fuel fs rows cursor rgcursor rgcount cur rgs nexts recs s2.
Proof.
  induction fuel as [|f IH]; intros cursor rgcursor rgcount cur rgs nexts recs s1 s2 Heq;
    cbn [iterate]; [reflexivity|].
  destruct (rows <=? cursor)%Z; [reflexivity|].
  destruct (rgcount <=? rgcursor)%Z; [|apply IH; exact Heq].
  pose proof (sched_indep_load_nonempty fs rgs s1 s2 Heq) as Hr. unfold res_equiv in Hr.
  destruct (load_nonempty decompress fs rgs s1) as [[[[cur1 rgcount1] rgs1] s1']| |];
    destruct (load_nonempty decompress fs rgs s2) as [[[[cur2 rgcount2] rgs2] s2']| |];
    try contradiction; try reflexivity.
  destruct Hr as [Hv He]. injection Hv as Hcur Hcount Hrgs. subst cur2 rgcount2 rgs2.
  apply IH. exact He.
Qed.

Lemma read_all_src_equiv fs s1 s2 :
  src_equiv s1 s2 -> read_all_src decompress fs s1 = read_all_src decompress fs s2.
Proof.
  intros Heq. unfold read_all_src.
  pose proof (sched_indep_open_footer fs s1 s2 Heq) as Ho. unfold res_equiv in Ho.
  destruct (open_footer fs s1) as [[fm1 t1]| |]; destruct (open_footer fs s2) as [[fm2 t2]| |];
    try contradiction; try reflexivity.
  destruct Ho as [Hv He]. subst fm2.
  destruct (fm_row_groups fm1) as [|rg rest]; [apply iterate_frag; exact He|].
  pose proof (sched_indep_read_row_group fs rg t1 t2 He) as Hr. unfold res_equiv in Hr.
  destruct (read_row_group decompress fs rg t1) as [[rrecs1 u1]| |];
    destruct (read_row_group decompress fs rg t2) as [[rrecs2 u2]| |];
    try contradiction; try reflexivity.
  destruct Hr as [Hv He']. subst rrecs2. apply iterate_frag. exact He'.
Qed.

Theorem read_frag_indep fs file sched1 sched2 fail :
  read_all_src decompress fs (mk_src file sched1 fail) =
  read_all_src decompress fs (mk_src file sched2 fail).
Proof. apply read_all_src_equiv, src_equiv_mk_src. Qed.

(** ** C10: a failing source operation *)

(** the outcome of the Next loop extends what was delivered before it *)
Definition extends (rows : Z) (nexts : N) (recs : list value) (o : outcome) : Prop :=
  o_open_ok o = true /\ o_rows o = rows /\ nexts <= o_nexts o /\ exists rest, o_recs o = recs ++ rest.

Lemma extends_mk rows nexts err panic recs : extends rows nexts recs (mk_outcome rows nexts err panic recs).
Proof.
  unfold extends, mk_outcome. cbn [o_open_ok o_rows o_nexts o_recs].
  repeat split; [lia|]. exists []. rewrite app_nil_r. reflexivity.
Qed.

Lemma extends_step rows nexts recs x o : extends rows (nexts + 1) (recs ++ [x]) o -> extends rows nexts recs o.
Proof.
  intros (Hok & Hrows & Hn & rest & Hrest). unfold extends.
  repeat split; [exact Hok | exact Hrows | lia |].
  exists (x :: rest). rewrite Hrest, <- app_assoc. reflexivity.
Qed.

Lemma iterate_extends fs rows fuel : forall cursor rgcursor rgcount cur rgs nexts recs s,
  extends rows nexts recs (iterate decompress fuel fs rows cursor rgcursor rgcount cur rgs nexts recs s).
Proof.
  induction fuel as [|f IH]; intros cursor rgcursor rgcount cur rgs nexts recs s;
    cbn [iterate]; [apply extends_mk|].
  destruct (rows <=? cursor)%Z; [apply extends_mk|].
  destruct (rgcount <=? rgcursor)%Z; [|eapply extends_step; apply IH].
  destruct (load_nonempty decompress fs rgs s) as [[[[cur' rgcount'] rgs'] s']| |];
    [eapply extends_step; apply IH | apply extends_mk | apply extends_mk].
Qed.

(** the number of successful Next is the number of records delivered *)
Lemma iterate_nexts_recs fs rows fuel : forall cursor rgcursor rgcount cur rgs nexts recs s,
  nexts = nlen recs ->
  let o := iterate decompress fuel fs rows cursor rgcursor rgcount cur rgs nexts recs s in
  o_nexts o = nlen (o_recs o).
Proof.
  assert (Hstep : forall (nexts : N) (recs : list value) (x : value), nexts = nlen recs -> nexts + 1 = nlen (recs ++ [x])).
  { intros nexts recs x Hn. rewrite nlen_app, Hn. reflexivity. }
  induction fuel as [|f IH]; intros cursor rgcursor rgcount cur rgs nexts recs s Hn;
    cbn [iterate]; [exact Hn|].
  destruct (rows <=? cursor)%Z; [exact Hn|].
  destruct (rgcount <=? rgcursor)%Z; [|apply IH, Hstep, Hn].
  destruct (load_nonempty decompress fs rgs s) as [[[[cur' rgcount'] rgs'] s']| |];
    [apply IH, Hstep, Hn | exact Hn | exact Hn].
Qed.

Lemma read_all_src_nexts_recs fs s :
  o_nexts (read_all_src decompress fs s) = nlen (o_recs (read_all_src decompress fs s)).
Proof.
  unfold read_all_src.
  destruct (open_footer fs s) as [[fm s1]| |]; [|reflexivity|reflexivity].
  destruct (fm_row_groups fm) as [|rg rest]; [apply iterate_nexts_recs; reflexivity|].
  destruct (read_row_group decompress fs rg s1) as [[rrecs s2]| |];
    [apply iterate_nexts_recs; reflexivity | reflexivity | reflexivity].
Qed.

(** how the outcome [bad] of a run with a failing source operation relates to
    the outcome [good] of the fault-free run *)
Definition fault_outcome (good bad : outcome) : Prop :=
  bad = good                              (* the operation is never reached *)
  \/ bad = open_failed false              (* the constructor returns an error *)
  \/ (o_open_ok good = true /\ o_open_ok bad = true /\ o_rows bad = o_rows good /\
      o_err bad = true /\ o_panic bad = false /\       (* Next returns false, Error() is set *)
      o_nexts bad <= o_nexts good /\ exists rest, o_recs good = o_recs bad ++ rest).

Lemma fault_outcome_cut rows nexts recs good :
  extends rows nexts recs good -> fault_outcome good (mk_outcome rows nexts true false recs).
Proof.
  intros (Hok & Hrows & Hn & rest & Hrest). right. right.
  unfold mk_outcome. cbn [o_open_ok o_rows o_nexts o_err o_panic o_recs].
  repeat split; [exact Hok | symmetry; exact Hrows | exact Hn |]. exists rest. exact Hrest.
Qed.

Lemma iterate_fault fs rows k fuel : forall cursor rgcursor rgcount cur rgs nexts recs s,
  s_fail s = None ->
  fault_outcome (iterate decompress fuel fs rows cursor rgcursor rgcount cur rgs nexts recs s)
                (iterate decompress fuel fs rows cursor rgcursor rgcount cur rgs nexts recs (with_fail (Some k) s)).
Proof.
  induction fuel as [|f IH]; intros cursor rgcursor rgcount cur rgs nexts recs s Hs;
    cbn [iterate]; [left; reflexivity|].
  destruct (rows <=? cursor)%Z; [left; reflexivity|].
  destruct (rgcount <=? rgcursor)%Z; [|apply IH; exact Hs].
  pose proof (fault_local_load_nonempty fs rgs s k Hs) as Hr. unfold fault_rel in Hr.
  destruct (load_nonempty decompress fs rgs s) as [[[[cur' rgcount'] rgs'] s']| |].
  - destruct Hr as (Hs' & _ & [[Hbad _] | [Hbad _]]); rewrite Hbad.
    + apply IH. exact Hs'.
    + apply fault_outcome_cut. eapply extends_step. apply iterate_extends.
  - rewrite Hr. left. reflexivity.
  - destruct Hr as [Hbad | [Hbad _]]; rewrite Hbad; [left; reflexivity|].
    apply fault_outcome_cut. apply extends_mk.
Qed.

Lemma read_all_src_fault fs s k :
  s_fail s = None ->
  fault_outcome (read_all_src decompress fs s) (read_all_src decompress fs (with_fail (Some k) s)).
Proof.
  intros Hs. unfold read_all_src.
  pose proof (fault_local_open_footer fs s k Hs) as Ho. unfold fault_rel in Ho.
  destruct (open_footer fs s) as [[fm s1]| |].
  - destruct Ho as (Hs1 & _ & [[Hbad _] | [Hbad _]]); rewrite Hbad; [|right; left; reflexivity].
    destruct (fm_row_groups fm) as [|rg rest]; [apply iterate_fault; exact Hs1|].
    pose proof (fault_local_read_row_group fs rg s1 k Hs1) as Hr. unfold fault_rel in Hr.
    destruct (read_row_group decompress fs rg s1) as [[rrecs s2]| |].
    + destruct Hr as (Hs2 & _ & [[Hbad2 _] | [Hbad2 _]]); rewrite Hbad2;
        [apply iterate_fault; exact Hs2 | right; left; reflexivity].
    + rewrite Hr. left. reflexivity.
    + destruct Hr as [Hbad2 | [Hbad2 _]]; rewrite Hbad2; [left; reflexivity | right; left; reflexivity].
  - rewrite Ho. left. reflexivity.
  - destruct Ho as [Hbad | [Hbad _]]; rewrite Hbad; [left; reflexivity | right; left; reflexivity].
Qed.

(** C10, strongest form: three cases *)
Theorem src_fault_cases fs file sched k :
  fault_outcome (read_all_src decompress fs (mk_src file sched None))
                (read_all_src decompress fs (mk_src file sched (Some k))).
Proof.
  change (mk_src file sched (Some k)) with (with_fail (Some k) (mk_src file sched None)).
  apply read_all_src_fault. reflexivity.
Qed.

(** C10 as one statement: identical outcome, or an error is reported (by the
    constructor or by Error() after the loop), no panic, and the delivered
    records (and number of successful Next) are a prefix of the fault-free ones *)
Theorem src_fault_safe fs file sched k :
  let good := read_all_src decompress fs (mk_src file sched None) in
  let bad := read_all_src decompress fs (mk_src file sched (Some k)) in
  bad = good \/
  (o_err bad = true /\ o_panic bad = false /\
   (o_open_ok bad = false \/ (o_open_ok good = true /\ o_rows bad = o_rows good)) /\
   o_nexts bad <= o_nexts good /\
   exists rest, o_recs good = o_recs bad ++ rest).
Proof.
  intros good bad. destruct (src_fault_cases fs file sched k) as [H | [H | H]]; fold good bad in H.
  - left. exact H.
  - right. rewrite H. unfold open_failed. cbn [o_err o_panic o_open_ok o_nexts o_recs negb app].
    repeat split; [left; reflexivity | lia |]. exists (o_recs good). reflexivity.
  - right. destruct H as (Hg & Hb & Hrows & Herr & Hp & Hn & Hrest).
    repeat split; [exact Herr | exact Hp | right; split; [exact Hg | exact Hrows] | exact Hn | exact Hrest].
Qed.

(** a failing source never introduces a panic *)
Corollary src_fault_no_new_panic fs file sched k :
  o_panic (read_all_src decompress fs (mk_src file sched None)) = false ->
  o_panic (read_all_src decompress fs (mk_src file sched (Some k))) = false.
Proof.
  intros Hgood. destruct (src_fault_safe fs file sched k) as [H | (_ & Hp & _)]; cbv zeta in *.
  - rewrite H. exact Hgood.
  - exact Hp.
Qed.

(** a run that completed without any error under a fault is the fault-free run *)
Corollary src_fault_clean_same fs file sched k :
  o_err (read_all_src decompress fs (mk_src file sched (Some k))) = false ->
  read_all_src decompress fs (mk_src file sched (Some k)) = read_all_src decompress fs (mk_src file sched None).
Proof.
  intros Hclean. destruct (src_fault_safe fs file sched k) as [H | (Herr & _)]; cbv zeta in *.
  - exact H.
  - rewrite Herr in Hclean. discriminate Hclean.
Qed.

End Instances.

Print Assumptions read_frag_indep.
Print Assumptions src_fault_cases.
Print Assumptions src_fault_safe.
Print Assumptions src_fault_no_new_panic.
Print Assumptions src_fault_clean_same.
Print Assumptions read_all_src_nexts_recs.
