(** * Schema: struct shapes, record values, columns.

    A struct shape of parquetgen's documented grammar is a list of fields; a
    field has a column name, a repetition (required / optional = Go pointer /
    repeated = Go slice) and is either a primitive leaf or a nested group.
    Record values are untyped trees; [has_ty] is the typing judgement. *)
From Coq Require Import List NArith Lia Bool.
From PQ Require Import Bytes.
Import ListNotations.
Local Open Scope N_scope.

Inductive prim := PInt32 | PInt64 | PUint32 | PUint64 | PFloat32 | PFloat64 | PBool | PString.
Inductive rept := Req | Opt | Rep.

Inductive ty :=
| TLeaf (p : prim)
| TGroup (fs : list (bytes * rept * ty)).   (* column name, repetition, type *)

Definition field : Type := (bytes * rept * ty)%type.
Definition fname (f : field) : bytes := fst (fst f).
Definition frep (f : field) : rept := snd (fst f).
Definition fty (f : field) : ty := snd f.

(** Leaves carry bit patterns: an int32 -5 is [VNum (2^32-5)], a float is its
    IEEE bit pattern, a bool is [VNum 0] / [VNum 1].  A nil pointer is [VNull];
    a slice is [VList] (nil and empty slices are both [VList []]); a struct is
    [VGroup] of its field values in declaration order. *)
Inductive value :=
| VNum (n : N)
| VStr (bs : bytes)
| VNull
| VList (vs : list value)
| VGroup (vs : list value).

Definition prim_bits (p : prim) : N :=
  match p with
  | PInt32 | PUint32 | PFloat32 => 32
  | PInt64 | PUint64 | PFloat64 => 64
  | PBool => 1
  | PString => 0
  end.

Definition prim_ok (p : prim) (v : value) : bool :=
  match p, v with
  | PString, VStr bs => wf_bytesb bs
  | PString, _ => false
  | _, VNum n => n <? 2 ^ prim_bits p
  | _, _ => false
  end.

(** Boolean typing judgement (structural on the type). *)
Fixpoint has_tyb (t : ty) (v : value) {struct t} : bool :=
  match t with
  | TLeaf p => prim_ok p v
  | TGroup fs =>
      match v with
      | VGroup vs =>
          (fix go (fs : list (bytes * rept * ty)) (vs : list value) {struct fs} : bool :=
             match fs, vs with
             | [], [] => true
             | (_, r, t') :: fs', v' :: vs' =>
                 (match r with
                  | Req => has_tyb t' v'
                  | Opt => match v' with VNull => true | _ => has_tyb t' v' end
                  | Rep => match v' with
                           | VList es => forallb (has_tyb t') es
                           | _ => false
                           end
                  end) && go fs' vs'
             | _, _ => false
             end) fs vs
      | _ => false
      end
  end.

(** A column: the names and repetitions along the path from the root to a
    leaf, and the leaf's primitive type. *)
Record col := { c_path : list bytes; c_reps : list rept; c_prim : prim }.

Fixpoint columns_ty (pth : list bytes) (rs : list rept) (t : ty) {struct t} : list col :=
  match t with
  | TLeaf p => [ {| c_path := pth; c_reps := rs; c_prim := p |} ]
  | TGroup fs =>
      (fix go (fs : list (bytes * rept * ty)) : list col :=
         match fs with
         | [] => []
         | (n, r, t') :: fs' => columns_ty (pth ++ [n]) (rs ++ [r]) t' ++ go fs'
         end) fs
  end.

Definition columns (fs : list field) : list col := columns_ty [] [] (TGroup fs).

Definition count_rep (f : rept -> bool) (rs : list rept) : N :=
  N.of_nat (length (filter f rs)).

Definition is_rep (r : rept) : bool := match r with Rep => true | _ => false end.
Definition is_nonreq (r : rept) : bool := match r with Req => false | _ => true end.

(** RepetitionTypes.MaxDef / MaxRep of parquet.go and fields/repetition.go. *)
Definition max_def (c : col) : N := count_rep is_nonreq (c_reps c).
Definition max_rep (c : col) : N := count_rep is_rep (c_reps c).

(** A column is handled by RequiredField iff every step of its path is
    required (fields.Field.Required); otherwise by OptionalField. *)
Definition col_required (c : col) : bool := forallb (fun r => negb (is_nonreq r)) (c_reps c).

(** One entry of a column's striped data. *)
Record entry := { e_rep : N; e_def : N; e_val : option value }.
