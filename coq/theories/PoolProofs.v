(** * PoolProofs: stale pool contents never reach an output; interleaving
    independent instances gives each its solo outputs (C13, the part a
    sequential model can carry). *)
From Coq Require Import List NArith ZArith Lia Bool Arith.
From PQ Require Import Bytes MetaTypes Pool.
Import ListNotations.

Lemma pb_append_data b x : pb_data (pb_append b x) = pb_data b ++ x.
Proof. reflexivity. Qed.

Lemma fold_append_data pieces b :
  pb_data (fold_left pb_append pieces b) = pb_data b ++ concat pieces.
Proof.
  revert b; induction pieces as [|x r IH]; intros b; cbn [fold_left concat].
  - rewrite app_nil_r. reflexivity.
  - rewrite IH, pb_append_data, app_assoc. reflexivity.
Qed.

Section WithCodecs.
Variable snappy_encode : bytes -> bytes -> bytes.
Variable snappy_maxlen : nat -> nat.
Variable gzip_encode : bytes -> bytes.
(** library contract: the encoder's result does not depend on what dst holds *)
Hypothesis snappy_dst_irrelevant : forall d1 d2 src, length d1 = length d2 -> snappy_encode d1 src = snappy_encode d2 src.

Lemma pb_reslice_length b v : length (pb_reslice b v) = v.
Proof.
  unfold pb_reslice. destruct (Nat.leb v (length (pb_data b ++ pb_stale b))) eqn:E.
  - apply Nat.leb_le in E. rewrite firstn_length. lia.
  - apply repeat_length.
Qed.

Theorem compress_pool_indep codec stale1 stale2 vals :
  compress_pooled snappy_encode snappy_maxlen gzip_encode codec (pool_get stale1) vals =
  compress_pooled snappy_encode snappy_maxlen gzip_encode codec (pool_get stale2) vals.
Proof.
  unfold compress_pooled.
  destruct (Z.eqb codec CODEC_SNAPPY).
  - apply snappy_dst_irrelevant. rewrite !pb_reslice_length. reflexivity.
  - destruct (Z.eqb codec CODEC_GZIP); reflexivity.
Qed.

(** the bytes of a page body do not depend on the stale contents of either pooled buffer *)
Theorem pool_indep codec a1 a2 b1 b2 pieces :
  page_body_pooled snappy_encode snappy_maxlen gzip_encode codec a1 a2 pieces =
  page_body_pooled snappy_encode snappy_maxlen gzip_encode codec b1 b2 pieces.
Proof.
  unfold page_body_pooled. rewrite !fold_append_data. cbn [pool_get pb_data app].
  apply compress_pool_indep.
Qed.
End WithCodecs.

Section Interleave.
Variables (St Call Out : Type).
Variable step : list bytes -> St -> Call -> St * Out * list bytes.
(** the pool is scratch only: next state and output do not depend on it *)
Hypothesis step_pool_scratch : forall p1 p2 s c,
  fst (step p1 s c) = fst (step p2 s c).

Lemma run_solo_pool p1 p2 s calls :
  run_solo St Call Out step p1 s calls = run_solo St Call Out step p2 s calls.
Proof.
  revert p1 p2 s; induction calls as [|c r IH]; intros p1 p2 s; cbn [run_solo]; [reflexivity|].
  pose proof (step_pool_scratch p1 p2 s c) as H.
  destruct (step p1 s c) as [[s1 o1] q1]. destruct (step p2 s c) as [[s2 o2] q2].
  cbn [fst] in H. inversion H; subst. f_equal. apply IH.
Qed.

(** any interleaving of the calls of independent instances, any pool contents:
    each instance produces exactly the outputs of its solo run *)
Theorem interleave_indep sched : forall pool pool' sts i,
  outs_of i (run_sched St Call Out step pool sts sched) =
  run_solo St Call Out step pool' (sts i) (calls_of Call i sched).
Proof.
  induction sched as [|[j c] rest IH]; intros pool pool' sts i; cbn [run_sched calls_of filter map]; [reflexivity|].
  destruct (step pool (sts j) c) as [[s' o] q] eqn:E.
  unfold outs_of. cbn [filter fst].
  destruct (Nat.eqb j i) eqn:Eji.
  - apply Nat.eqb_eq in Eji. subst j. cbn [map snd run_solo].
    pose proof (step_pool_scratch pool pool' (sts i) c) as H. rewrite E in H.
    destruct (step pool' (sts i) c) as [[s2 o2] q2]. cbn [fst] in H. inversion H; subst.
    f_equal.
    change (map snd (filter (fun ic : nat * Out => fst ic =? i) (run_sched St Call Out step q (fun k => if k =? i then s2 else sts k) rest)))
      with (outs_of i (run_sched St Call Out step q (fun k => if k =? i then s2 else sts k) rest)).
    rewrite (IH q q2 _ i). rewrite Nat.eqb_refl. reflexivity.
  - change (map snd (filter (fun ic : nat * Out => fst ic =? i) (run_sched St Call Out step q (fun k => if k =? j then s' else sts k) rest)))
      with (outs_of i (run_sched St Call Out step q (fun k => if k =? j then s' else sts k) rest)).
    rewrite (IH q pool' _ i).
    assert (Hij : (i =? j) = false) by (rewrite Nat.eqb_sym; exact Eji).
    rewrite Hij. reflexivity.
Qed.
End Interleave.

Print Assumptions pool_indep.
Print Assumptions interleave_indep.
