(** * ConformantProofs: the reader model decodes every conformant file of the
    supported subset (the strong form of property C04).

    "Conformant" is [FileSpec.check_file decompress file = inr v]: the
    independent validator written from the format specification accepts the
    file.  No writer is involved anywhere: page headers and the footer are
    whatever bytes the thrift decoder accepts, level sections whatever the
    specification decoder [RleSpec.hybrid_decode_framed] accepts, values
    whatever the strict PLAIN decoder accepts.

    Layers: (a) the two level decoders agree ([ConformantLevels]); the thrift
    decoder is local and returns int32s ([ConformantThrift]); here: the strict
    PLAIN decoder inverts [plain_enc]; (b) a page accepted by [check_page]
    satisfies [ForeignProofs.req_step] / [opt_step]; (c) chunks, row groups
    and the file.  Most generic lemmas of [ForeignProofs] (layers D-F) carry a
    spurious dependency on a compressor (their section hypotheses are captured
    by [lia]); the ones about chunks are re-proved here over [decompress]
    alone, the ones about the Next/Scan loop ([iterate_prefix], [iterate_end],
    which allow row groups without rows) are stated over [decompress] alone
    there and used directly. *)
From Coq Require Import List NArith ZArith Lia Bool Arith PeanoNat.
From Coq Require Import ZifyN ZifyNat ZifyBool.
From PQ Require Import Bytes Schema Dremel DremelProofs BitpackProofs Rle RleSpec RleSpecProofs RleDecProofs
     Plain PlainProofs MetaTypes Thrift Meta Io Reader ReaderProofs ReaderProofs2 FileSpec ForeignProofs
     ConformantLevels ConformantThrift.
Import ListNotations.
Local Open Scope N_scope.

Ltac Zify.zify_post_hook ::= Z.div_mod_to_equations.

(** ** The strict PLAIN decoder inverts the encoder on whatever it accepts *)

Lemma read_fixed_inv p : numeric p -> forall n bs vals,
  wf_bytes bs -> length bs = (n * prim_size p)%nat -> read_fixed (prim_size p) n bs = Some vals ->
  bs = plain_enc p vals /\ length vals = n /\ Forall (leaf_ok p) vals.
Proof.
  intros Hp. assert (Hnb : p <> PBool) by (apply numeric_nonbool; exact Hp).
  assert (Hsz : (1 <= prim_size p)%nat) by (destruct p; cbn [prim_size]; try lia; contradiction).
  induction n as [|n IH]; intros bs vals Hwf Hlen Hrd; cbn [read_fixed] in Hrd.
  - injection Hrd as <-. destruct bs as [|b bs]; [|cbn [length] in Hlen; lia].
    rewrite plain_enc_nonbool by exact Hnb. split; [reflexivity|]. split; [reflexivity | constructor].
  - destruct (Nat.leb (prim_size p) (length bs)) eqn:Ele; [|discriminate Hrd]. apply Nat.leb_le in Ele.
    destruct (read_fixed (prim_size p) n (skipn (prim_size p) bs)) as [vs|] eqn:Er; [|discriminate Hrd].
    injection Hrd as <-.
    assert (Hlen' : length (skipn (prim_size p) bs) = (n * prim_size p)%nat) by (rewrite skipn_length; lia).
    destruct (IH _ _ (wf_bytes_skipn _ _ Hwf) Hlen' Er) as (Hbs & Hl & Hok).
    assert (Hfl : length (firstn (prim_size p) bs) = prim_size p) by (apply firstn_length_le; exact Ele).
    assert (Hfw : wf_bytes (firstn (prim_size p) bs)) by (apply wf_bytes_firstn; exact Hwf).
    split; [|split; [cbn [length]; lia|]].
    + rewrite plain_enc_cons by exact Hnb. rewrite <- Hbs.
      rewrite (plain_enc_val_numeric p _ Hp). cbn [num_of].
      rewrite <- Hfl at 1. rewrite (le_enc_dec _ Hfw). symmetry. apply firstn_skipn.
    + constructor; [|exact Hok]. unfold leaf_ok, prim_ok.
      pose proof (le_dec_bound _ Hfw) as Hb. rewrite Hfl, <- (pow_bits_size p Hp) in Hb.
      destruct p; try contradiction; lia.
Qed.

Lemma strict_strings_inv : forall n bs vals,
  wf_bytes bs -> strict_strings n bs = Some vals ->
  bs = plain_enc PString vals /\ length vals = n /\ Forall (leaf_ok PString) vals /\
  Forall (fun v => nlen (str_of v) <= nlen bs) vals.
Proof.
  induction n as [|n IH]; intros bs vals Hwf Hs; cbn [strict_strings] in Hs.
  - destruct bs as [|b bs]; [|discriminate Hs]. injection Hs as <-.
    split; [reflexivity|]. split; [reflexivity|]. split; constructor.
  - destruct (take_le 4 bs) as [[x rest]|] eqn:Et; [|discriminate Hs].
    destruct (Nat.leb (N.to_nat x) (length rest)) eqn:Ele; [|discriminate Hs]. apply Nat.leb_le in Ele.
    destruct (strict_strings n (skipn (N.to_nat x) rest)) as [vs|] eqn:Er; [|discriminate Hs].
    injection Hs as <-.
    unfold take_le in Et. destruct (Nat.leb 4 (length bs)) eqn:E4; [|discriminate Et]. apply Nat.leb_le in E4.
    assert (Hx : le_dec (firstn 4 bs) = x) by congruence.
    assert (Hrest : skipn 4 bs = rest) by congruence. clear Et.
    assert (Hwr : wf_bytes rest) by (rewrite <- Hrest; apply wf_bytes_skipn; exact Hwf).
    destruct (IH _ _ (wf_bytes_skipn _ _ Hwr) Er) as (Hbs & Hl & Hok & Hle).
    assert (Hfl : length (firstn 4 bs) = 4%nat) by (apply firstn_length_le; exact E4).
    assert (Hfw : wf_bytes (firstn 4 bs)) by (apply wf_bytes_firstn; exact Hwf).
    set (s := firstn (N.to_nat x) rest) in *.
    assert (Hsl : length s = N.to_nat x) by (apply firstn_length_le; exact Ele).
    assert (Hlenbs : length bs = (4 + length rest)%nat) by (rewrite <- Hrest, skipn_length; lia).
    split; [|split; [cbn [length]; lia|split]].
    + rewrite plain_enc_cons by discriminate. rewrite <- Hbs. cbn [plain_enc_val str_of].
      pose proof (le_dec_bound _ Hfw) as Hb. rewrite Hfl, pow256_4 in Hb. rewrite Hx in Hb.
      replace (nlen s) with x by (unfold nlen; lia).
      change (2 ^ 32) with 4294967296. rewrite N.mod_small by exact Hb.
      assert (Henc : le_enc 4 x = firstn 4 bs).
      { rewrite <- Hx. rewrite <- Hfl at 1. apply (le_enc_dec _ Hfw). }
      rewrite Henc. unfold s. rewrite <- app_assoc, (firstn_skipn (N.to_nat x) rest), <- Hrest. symmetry. apply firstn_skipn.
    + constructor; [|exact Hok]. unfold leaf_ok. cbn [prim_ok]. apply wf_bytesb_spec.
      apply wf_bytes_firstn. exact Hwr.
    + constructor.
      * cbn [str_of]. unfold nlen. lia.
      * eapply Forall_impl; [|exact Hle]. intros v Hv. cbv beta in Hv |- *.
        unfold nlen in *. rewrite skipn_length in Hv. lia.
Qed.

Lemma bools_of_chunk_length : forall bs n, length (bools_of_chunk bs n) = Nat.min n (8 * length bs).
Proof.
  induction bs as [|b bs IH]; intros n; cbn [bools_of_chunk length]; [lia|].
  rewrite app_length, IH. unfold unpack_bools_byte. rewrite map_length, seq_length. lia.
Qed.

Lemma bools_of_chunk_ok : forall bs n, Forall (leaf_ok PBool) (bools_of_chunk bs n).
Proof.
  induction bs as [|b bs IH]; intros n; cbn [bools_of_chunk]; [constructor|].
  apply Forall_app. split; [|apply IH].
  unfold unpack_bools_byte. apply Forall_map. apply Forall_forall. intros i _.
  unfold leaf_ok. cbn [prim_ok prim_bits]. destruct (N.testbit b (N.of_nat i)); reflexivity.
Qed.

Theorem plain_dec_strict_inv p n bs vals :
  wf_bytes bs -> plain_dec_strict p n bs = Some vals ->
  bs = plain_enc p vals /\ length vals = n /\ Forall (leaf_ok p) vals /\
  Forall (fun v => nlen (str_of v) <= nlen bs) vals.
Proof.
  intros Hwf Hd.
  assert (Hnum : numeric p ->
            bs = plain_enc p vals /\ length vals = n /\ Forall (leaf_ok p) vals /\
            Forall (fun v => nlen (str_of v) <= nlen bs) vals).
  { intros Hp.
    assert (Hd' : (if Nat.eqb (length bs) (n * prim_size p) then read_fixed (prim_size p) n bs else None) = Some vals)
      by (destruct p; try contradiction; exact Hd).
    destruct (Nat.eqb (length bs) (n * prim_size p)) eqn:El; [|discriminate Hd']. apply Nat.eqb_eq in El.
    destruct (read_fixed_inv p Hp n bs vals Hwf El Hd') as (H1 & H2 & H3).
    split; [exact H1|]. split; [exact H2|]. split; [exact H3|].
    eapply Forall_impl; [|exact H3]. intros v Hv. destruct (leaf_ok_numeric p v Hp Hv) as (x & -> & _).
    cbn [str_of]. unfold nlen. cbn [length]. lia. }
  destruct p; try (apply Hnum; exact I).
  - (* PBool *)
    unfold plain_dec_strict in Hd.
    destruct (Nat.eqb (length bs) ((n + 7) / 8)) eqn:El; [|discriminate Hd]. apply Nat.eqb_eq in El.
    destruct (list_eq_dec N.eq_dec (pack_bools (map num_of (bools_of_chunk bs n))) bs) as [Heq|_]; [|discriminate Hd].
    injection Hd as <-. split; [symmetry; exact Heq|]. split; [rewrite bools_of_chunk_length; lia|].
    split; [apply bools_of_chunk_ok|].
    eapply Forall_impl; [|apply (bools_of_chunk_ok bs n)]. intros v Hv.
    destruct (leaf_ok_bool v Hv) as [-> | ->]; cbn [str_of]; unfold nlen; cbn [length]; lia.
  - (* PString *)
    apply strict_strings_inv; assumption.
Qed.

(** ** The validator's entries of one page *)

Lemma zip_entries_spec maxdef : forall defs reps vals,
  length reps = length defs -> length vals = length (filter (fun d => d =? maxdef) defs) ->
  map e_def (zip_entries reps defs maxdef vals) = defs /\
  map e_rep (zip_entries reps defs maxdef vals) = reps /\
  entry_vals (zip_entries reps defs maxdef vals) = vals.
Proof.
  induction defs as [|d defs IH]; intros reps vals Hl Hv.
  - destruct reps; [|discriminate Hl]. destruct vals; [|discriminate Hv]. cbn [zip_entries]. auto.
  - destruct reps as [|r reps]; [discriminate Hl|]. cbn [length] in Hl. injection Hl as Hl.
    cbn [zip_entries filter] in Hv |- *. destruct (d =? maxdef) eqn:Ed.
    + destruct vals as [|v vals]; [discriminate Hv|]. cbn [length] in Hv. injection Hv as Hv.
      destruct (IH reps vals Hl Hv) as (H1 & H2 & H3).
      cbn [map e_def e_rep]. rewrite H1, H2.
      change (entry_vals ({| e_rep := r; e_def := d; e_val := Some v |} :: zip_entries reps defs maxdef vals))
        with (v :: entry_vals (zip_entries reps defs maxdef vals)). rewrite H3. auto.
    + destruct (IH reps vals Hl Hv) as (H1 & H2 & H3).
      cbn [map e_def e_rep]. rewrite H1, H2.
      change (entry_vals ({| e_rep := r; e_def := d; e_val := None |} :: zip_entries reps defs maxdef vals))
        with (entry_vals (zip_entries reps defs maxdef vals)). rewrite H3. auto.
Qed.

Lemma zip_entries_lev_ok c : forall defs reps vals,
  length reps = length defs -> length vals = length (filter (fun d => d =? max_def c) defs) ->
  Forall (fun r => r <= max_rep c) reps -> Forall (fun d => d <= max_def c) defs ->
  lev_ok c (zip_entries reps defs (max_def c) vals).
Proof.
  unfold lev_ok.
  induction defs as [|d defs IH]; intros reps vals Hl Hv Hr Hd.
  - destruct reps; [|discriminate Hl]. constructor.
  - destruct reps as [|r reps]; [discriminate Hl|]. cbn [length] in Hl. injection Hl as Hl.
    inversion Hr as [|r' reps' Hr1 Hr2]; subst r' reps'. inversion Hd as [|d' defs' Hd1 Hd2]; subst d' defs'.
    cbn [zip_entries filter] in Hv |- *. destruct (d =? max_def c) eqn:Ed.
    + destruct vals as [|v vals]; [discriminate Hv|]. cbn [length] in Hv. injection Hv as Hv.
      constructor; [|apply IH; assumption].
      unfold entry_levels_ok. cbn [e_rep e_def e_val]. lia.
    + constructor; [|apply IH; assumption].
      unfold entry_levels_ok. cbn [e_rep e_def e_val]. lia.
Qed.

Lemma zip_entries_length maxdef defs reps vals :
  length reps = length defs -> length vals = length (filter (fun d => d =? maxdef) defs) ->
  length (zip_entries reps defs maxdef vals) = length defs.
Proof.
  intros Hl Hv. destruct (zip_entries_spec maxdef defs reps vals Hl Hv) as (H1 & _ & _).
  rewrite <- H1 at 2. rewrite map_length. reflexivity.
Qed.

(** ** One level section: the validator's [take_levels] and the reader's [read_levels] *)

Lemma take_levels_inv w n maxlvl bs ls rest :
  take_levels w n maxlvl bs = inr (ls, rest) ->
  exists rs, hybrid_decode_framed w bs = Some (rs, rest) /\ ls = firstn n (runs_values rs) /\
             (n <= length (runs_values rs))%nat /\ (length (runs_values rs) < n + 8)%nat /\
             Forall (fun l => l <= maxlvl) ls.
Proof.
  unfold take_levels. intros H. destruct (hybrid_decode_framed w bs) as [[rs rest0]|]; [|discriminate H].
  destruct (Nat.ltb (length (runs_values rs)) n) eqn:E1; [discriminate H|]. apply Nat.ltb_ge in E1.
  destruct (Nat.leb 8 (length (runs_values rs) - n)) eqn:E2; [discriminate H|]. apply Nat.leb_gt in E2.
  destruct (forallb (fun l => l <=? maxlvl) (firstn n (runs_values rs))) eqn:E3; [|discriminate H].
  injection H as <- <-. exists rs. split; [reflexivity|]. split; [reflexivity|]. split; [exact E1|]. split; [lia|].
  rewrite forallb_forall in E3. apply Forall_forall. intros l Hin. specialize (E3 l Hin). lia.
Qed.

Lemma bit_width_same n : FileSpec.bit_width n = Reader.bit_width n.
Proof. reflexivity. Qed.

(** the reader's level decoding at offset [l] of the page data, against the
    validator's on the same bytes *)
Lemma read_levels_conf w (n : nat) maxlvl data l nv ls rest :
  In w widths -> wf_bytes data -> nlen data < 2 ^ 31 -> (l <= length data)%nat ->
  (0 <= nv)%Z -> n = Z.to_nat nv -> (nv < 2 ^ 31)%Z ->
  take_levels w n maxlvl (skipn l data) = inr (ls, rest) ->
  exists k, read_levels w data l nv = Ok (ls, k) /\ skipn (l + k) data = rest /\ (l + k <= length data)%nat /\
            length ls = n /\ Forall (fun x => x <= maxlvl) ls.
Proof.
  intros Hw Hwf Hlen Hl Hnv0 Hn Hnv31 Ht.
  destruct (take_levels_inv _ _ _ _ _ _ Ht) as (rs & Hdec & Hls & Hge & Hlt & Hmax).
  assert (Hsmall : Forall run_small rs).
  { apply runs_small_of_length. unfold nlen.
    assert (2 ^ 31 + 8 < 2 ^ 63) by (vm_compute; reflexivity). lia. }
  destruct (rle_read_agrees_skip w (skipn l data) rs rest Hw (wf_bytes_skipn _ _ Hwf) Hdec) as (k & Hrd & Hsk & Hk & _).
  { unfold nlen in *. rewrite skipn_length. lia. }
  { exact Hsmall. }
  exists k. unfold read_levels.
  replace (Nat.ltb (length data) l) with false by (symmetry; apply Nat.ltb_ge; exact Hl).
  rewrite Hrd. replace (nv <? 0)%Z with false by lia. cbn [orb].
  replace (Nat.ltb (length (runs_values rs)) (Z.to_nat nv)) with false by (symmetry; apply Nat.ltb_ge; lia).
  rewrite <- Hn, <- Hls. split; [reflexivity|].
  rewrite skipn_length in Hk. split; [rewrite skipn_plus; exact Hsk|]. split; [lia|].
  split; [|exact Hmax]. rewrite Hls. apply firstn_length_le. exact Hge.
Qed.

Section WithCodec.

Variable decompress : Z -> bytes -> option bytes.

(** the codec contract of the theorems below: the identity codec returns its
    input, and decompressed data are bytes *)
Definition codec_id : Prop := forall x, decompress CODEC_UNCOMPRESSED x = Some x.
Definition codec_wf : Prop := forall c x y, wf_bytes x -> decompress c x = Some y -> wf_bytes y.

(** ** (b) One page *)

(** what [check_page] establishes, as a record of facts *)
Lemma check_page_inv c codec off bs pv used :
  check_page decompress c codec off bs = inr (pv, used) ->
  exists ph rest dph payload reps p1 defs p2 vals,
    dec_page_header bs = Some (ph, rest) /\
    ph_type ph = PT_DATA_PAGE /\ ph_data ph = Some dph /\ dph_encoding dph = ENC_PLAIN /\
    ((0 <? max_def c) = true -> dph_def_encoding dph = ENC_RLE) /\
    ((0 <? max_rep c) = true -> dph_rep_encoding dph = ENC_RLE) /\
    (0 <= ph_compressed_size ph)%Z /\ (0 <= ph_uncompressed_size ph)%Z /\ (0 <= dph_num_values dph)%Z /\
    (N.to_nat (Z.to_N (ph_compressed_size ph)) <= length rest)%nat /\
    decompress codec (firstn (N.to_nat (Z.to_N (ph_compressed_size ph))) rest) = Some payload /\
    nlen payload = Z.to_N (ph_uncompressed_size ph) /\
    Z.to_nat (dph_num_values dph) <> 0%nat /\
    (if 0 <? max_rep c
     then take_levels (Reader.bit_width (max_rep c)) (Z.to_nat (dph_num_values dph)) (max_rep c) payload = inr (reps, p1)
     else reps = repeat 0 (Z.to_nat (dph_num_values dph)) /\ p1 = payload) /\
    (if 0 <? max_def c
     then take_levels (Reader.bit_width (max_def c)) (Z.to_nat (dph_num_values dph)) (max_def c) p1 = inr (defs, p2)
     else defs = repeat 0 (Z.to_nat (dph_num_values dph)) /\ p2 = p1) /\
    plain_dec_strict (c_prim c) (length (filter (fun d => d =? max_def c) defs)) p2 = Some vals /\
    pv_entries pv = zip_entries reps defs (max_def c) vals /\ pv_header pv = ph /\
    pv_header_len pv = N.of_nat (length bs - length rest) /\
    used = N.of_nat (length bs - length rest) + Z.to_N (ph_compressed_size ph).
Proof.
  unfold check_page. intros H.
  destruct (dec_page_header bs) as [[ph rest]|] eqn:Edec; [|discriminate H]. cbv zeta in H.
  destruct (Z.eqb_spec (ph_type ph) PT_DATA_PAGE) as [Hty|_]; [|discriminate H]. cbn [negb] in H.
  destruct (ph_data ph) as [dph|] eqn:Edata; [|discriminate H].
  destruct (Z.eqb_spec (dph_encoding dph) ENC_PLAIN) as [Henc|_]; [|discriminate H]. cbn [negb] in H.
  destruct ((0 <? max_def c) && negb (Z.eqb (dph_def_encoding dph) ENC_RLE)) eqn:Edef; [discriminate H|].
  destruct ((0 <? max_rep c) && negb (Z.eqb (dph_rep_encoding dph) ENC_RLE)) eqn:Erep; [discriminate H|].
  destruct ((ph_compressed_size ph <? 0) || (ph_uncompressed_size ph <? 0) || (dph_num_values dph <? 0))%Z eqn:Esz;
    [discriminate H|].
  destruct (N.of_nat (length rest) <? Z.to_N (ph_compressed_size ph)) eqn:Ebody; [discriminate H|].
  destruct (decompress codec (firstn (N.to_nat (Z.to_N (ph_compressed_size ph))) rest)) as [payload|] eqn:Edc;
    [|discriminate H].
  destruct (N.eqb_spec (nlen payload) (Z.to_N (ph_uncompressed_size ph))) as [Hunc|_]; [|discriminate H].
  cbn [negb] in H.
  destruct (Nat.eqb (Z.to_nat (dph_num_values dph)) 0) eqn:En0; [discriminate H|]. apply Nat.eqb_neq in En0.
  set (n := Z.to_nat (dph_num_values dph)) in *.
  assert (Hreps : exists reps p1,
             (if 0 <? max_rep c
              then match take_levels (FileSpec.bit_width (max_rep c)) n (max_rep c) payload with
                   | inr x => inr x | inl EPageDefLevels => inl EPageRepLevels | inl e => inl e end
              else inr (repeat 0 n, payload)) = inr (reps, p1) /\
             (if 0 <? max_rep c then take_levels (Reader.bit_width (max_rep c)) n (max_rep c) payload = inr (reps, p1)
              else reps = repeat 0 n /\ p1 = payload)).
  { destruct (0 <? max_rep c).
    - rewrite bit_width_same in H |- *.
      destruct (take_levels (Reader.bit_width (max_rep c)) n (max_rep c) payload) as [e|[reps p1]].
      + exfalso. destruct e; discriminate H.
      + exists reps, p1. split; reflexivity.
    - exists (repeat 0 n), payload. split; [reflexivity | split; reflexivity]. }
  destruct Hreps as (reps & p1 & Hreq & Hreps). rewrite Hreq in H.
  assert (Hdefs : exists defs p2,
             (if 0 <? max_def c then take_levels (FileSpec.bit_width (max_def c)) n (max_def c) p1
              else inr (repeat 0 n, p1)) = inr (defs, p2) /\
             (if 0 <? max_def c then take_levels (Reader.bit_width (max_def c)) n (max_def c) p1 = inr (defs, p2)
              else defs = repeat 0 n /\ p2 = p1)).
  { destruct (0 <? max_def c).
    - rewrite bit_width_same in H |- *.
      destruct (take_levels (Reader.bit_width (max_def c)) n (max_def c) p1) as [e|[defs p2]]; [discriminate H|].
      exists defs, p2. split; reflexivity.
    - exists (repeat 0 n), p1. split; [reflexivity | split; reflexivity]. }
  destruct Hdefs as (defs & p2 & Hdeq & Hdefs). rewrite Hdeq in H.
  destruct (negb match reps with [] => true | r0 :: _ => r0 =? 0 end); [discriminate H|].
  destruct (plain_dec_strict (c_prim c) (length (filter (fun d => d =? max_def c) defs)) p2) as [vals|] eqn:Epl;
    [|discriminate H].
  injection H as <- <-. cbn [pv_entries pv_header pv_header_len].
  exists ph, rest, dph, payload, reps, p1, defs, p2, vals.
  split; [reflexivity|]. split; [exact Hty|]. split; [exact Edata|]. split; [exact Henc|].
  split; [intros E; rewrite E in Edef; cbn [andb] in Edef; destruct (Z.eqb_spec (dph_def_encoding dph) ENC_RLE); [assumption|discriminate Edef]|].
  split; [intros E; rewrite E in Erep; cbn [andb] in Erep; destruct (Z.eqb_spec (dph_rep_encoding dph) ENC_RLE); [assumption|discriminate Erep]|].
  split; [lia|]. split; [lia|]. split; [lia|]. split; [lia|]. split; [exact Edc|]. split; [exact Hunc|].
  split; [exact En0|]. split; [exact Hreps|]. split; [exact Hdefs|]. split; [exact Epl|].
  repeat split; reflexivity.
Qed.

(** pageData on the page body the validator decompressed *)
Lemma page_data_conf codec ph body payload s rest :
  codec_id -> codec_supported codec = true ->
  (0 <= ph_compressed_size ph)%Z -> (0 <= ph_uncompressed_size ph)%Z ->
  length body = N.to_nat (Z.to_N (ph_compressed_size ph)) ->
  decompress codec body = Some payload -> nlen payload = Z.to_N (ph_uncompressed_size ph) ->
  s_fail s = None -> rem s = body ++ rest ->
  exists s', page_data decompress codec ph s = Ok (payload, s') /\ adv s (length body) s'.
Proof.
  intros Hid Hsup Hc Hu Hbl Hdc Hpl Hfail Hrem. unfold page_data.
  destruct (Z.eqb codec CODEC_SNAPPY || Z.eqb codec CODEC_GZIP) eqn:Ecomp.
  - replace (ph_compressed_size ph <? 0)%Z with false by lia.
    replace (Z.to_nat (ph_compressed_size ph)) with (length body) by lia.
    destruct (m_read_full_ok s body rest Hfail Hrem) as (s' & Hrd & Hadv).
    rewrite (bind_ok _ _ _ _ _ Hrd), Hdc. exists s'. split; [reflexivity | exact Hadv].
  - unfold codec_supported in Hsup. rewrite <- orb_assoc, Ecomp, orb_false_r in Hsup.
    rewrite Hsup. apply Z.eqb_eq in Hsup. subst codec. rewrite Hid in Hdc. injection Hdc as <-.
    replace (ph_uncompressed_size ph <? 0)%Z with false by lia.
    replace (Z.to_nat (ph_uncompressed_size ph)) with (length body) by (unfold nlen in Hpl; lia).
    exact (m_read_full_ok s body rest Hfail Hrem).
Qed.

(** the two level sections of an optional column's page, as the reader reads them *)
Lemma levels_conf c payload nv reps p1 defs p2 :
  wf_bytes payload -> nlen payload < 2 ^ 31 -> (0 <= nv < 2 ^ 31)%Z ->
  max_rep c <= 15 -> 1 <= max_def c <= 15 ->
  (if 0 <? max_rep c
   then take_levels (Reader.bit_width (max_rep c)) (Z.to_nat nv) (max_rep c) payload = inr (reps, p1)
   else reps = repeat 0 (Z.to_nat nv) /\ p1 = payload) ->
  take_levels (Reader.bit_width (max_def c)) (Z.to_nat nv) (max_def c) p1 = inr (defs, p2) ->
  exists l1 l2,
    (if 0 <? max_rep c then read_levels (Reader.bit_width (max_rep c)) payload 0 nv = Ok (reps, l1) else l1 = 0%nat) /\
    read_levels (Reader.bit_width (max_def c)) payload l1 nv = Ok (defs, l2) /\
    skipn (l1 + l2) payload = p2 /\ (l1 + l2 <= length payload)%nat /\
    length reps = Z.to_nat nv /\ length defs = Z.to_nat nv /\
    Forall (fun r => r <= max_rep c) reps /\ Forall (fun d => d <= max_def c) defs.
Proof.
  intros Hwf Hlen Hnv Hr15 Hd15 Hreps Hdefs.
  assert (Hwd : In (Reader.bit_width (max_def c)) widths) by (apply bit_width_widths; lia).
  destruct (0 <? max_rep c) eqn:Erep.
  - assert (Hwr : In (Reader.bit_width (max_rep c)) widths) by (apply bit_width_widths; lia).
    destruct (read_levels_conf _ (Z.to_nat nv) (max_rep c) payload 0 nv reps p1 Hwr Hwf Hlen) as (l1 & Hr1 & Hs1 & Hl1 & Hrl & Hrm);
      [lia | lia | reflexivity | lia | exact Hreps |].
    cbn [Nat.add] in Hs1, Hl1. rewrite <- Hs1 in Hdefs.
    destruct (read_levels_conf _ (Z.to_nat nv) (max_def c) payload l1 nv defs p2 Hwd Hwf Hlen) as (l2 & Hr2 & Hs2 & Hl2 & Hdl & Hdm);
      [lia | lia | reflexivity | lia | exact Hdefs |].
    exists l1, l2. repeat split; assumption.
  - destruct Hreps as [-> ->].
    destruct (read_levels_conf _ (Z.to_nat nv) (max_def c) payload 0 nv defs p2 Hwd Hwf Hlen) as (l2 & Hr2 & Hs2 & Hl2 & Hdl & Hdm);
      [lia | lia | reflexivity | lia | exact Hdefs |].
    exists 0%nat, l2. split; [reflexivity|]. split; [exact Hr2|]. split; [exact Hs2|]. split; [exact Hl2|].
    split; [apply repeat_length|]. split; [exact Hdl|]. split; [|exact Hdm].
    apply Forall_forall. intros x Hx. apply repeat_spec in Hx. subst x. lia.
Qed.

Lemma filter_repeat0 n : filter (fun d => d =? 0) (repeat 0 n) = repeat 0 n.
Proof. induction n as [|n IH]; [reflexivity|]. cbn [repeat filter N.eqb]. rewrite IH. reflexivity. Qed.

Lemma i32_ok_lt z : i32_ok z = true -> (z < 2 ^ 31)%Z.
Proof. unfold i32_ok, in_range. change (2 ^ 31)%Z with 2147483648%Z. lia. Qed.

(** everything the reader's loops need to know about a page the validator accepted *)
Record page_wit := {
  pf_ph : page_header; pf_dph : data_page_header; pf_pre : bytes; pf_body : bytes; pf_payload : bytes;
  pf_reps : list N; pf_defs : list N; pf_l1 : nat; pf_l2 : nat; pf_vals : list value
}.

Record page_facts (codec : Z) (c : col) (bs : bytes) (pv : page_view) (used : N) (w : page_wit) : Prop := {
  pf_used : N.to_nat used = (length (pf_pre w) + length (pf_body w))%nat;
  pf_fit : (length (pf_pre w) + length (pf_body w) <= length bs)%nat;
  pf_first : firstn (N.to_nat used) bs = (pf_pre w) ++ (pf_body w);
  pf_pre_pos : (1 <= length (pf_pre w))%nat;
  pf_hlen : pv_header_len pv = nlen (pf_pre w);
  pf_hdr : pv_header pv = (pf_ph w);
  pf_loc : forall rest, dec_page_header ((pf_pre w) ++ rest) = Some ((pf_ph w), rest);
  pf_type : ph_type (pf_ph w) = PT_DATA_PAGE;
  pf_data : ph_data (pf_ph w) = Some (pf_dph w);
  pf_enc : dph_encoding (pf_dph w) = ENC_PLAIN;
  pf_denc : (0 <? max_def c) = true -> dph_def_encoding (pf_dph w) = ENC_RLE;
  pf_renc : (0 <? max_rep c) = true -> dph_rep_encoding (pf_dph w) = ENC_RLE;
  pf_c0 : (0 <= ph_compressed_size (pf_ph w))%Z;
  pf_u0 : (0 <= ph_uncompressed_size (pf_ph w))%Z;
  pf_nv : (1 <= dph_num_values (pf_dph w) < 2 ^ 31)%Z;
  pf_blen : length (pf_body w) = N.to_nat (Z.to_N (ph_compressed_size (pf_ph w)));
  pf_dc : decompress codec (pf_body w) = Some (pf_payload w);
  pf_unc : nlen (pf_payload w) = Z.to_N (ph_uncompressed_size (pf_ph w));
  pf_small : nlen (pf_payload w) < 2 ^ 31;
  pf_rl : length (pf_reps w) = Z.to_nat (dph_num_values (pf_dph w));
  pf_dl : length (pf_defs w) = Z.to_nat (dph_num_values (pf_dph w));
  pf_rmax : Forall (fun r => r <= max_rep c) (pf_reps w);
  pf_dmax : Forall (fun d => d <= max_def c) (pf_defs w);
  pf_levels :
    if col_required c then (pf_l1 w) = 0%nat /\ (pf_l2 w) = 0%nat
    else (if 0 <? max_rep c
          then read_levels (Reader.bit_width (max_rep c)) (pf_payload w) 0 (dph_num_values (pf_dph w)) = Ok ((pf_reps w), (pf_l1 w))
          else (pf_l1 w) = 0%nat) /\
         read_levels (Reader.bit_width (max_def c)) (pf_payload w) (pf_l1 w) (dph_num_values (pf_dph w)) = Ok ((pf_defs w), (pf_l2 w));
  pf_lfit : ((pf_l1 w) + (pf_l2 w) <= length (pf_payload w))%nat;
  pf_plain : skipn ((pf_l1 w) + (pf_l2 w)) (pf_payload w) = plain_enc (c_prim c) (pf_vals w);
  pf_vlen : length (pf_vals w) = length (filter (fun d => d =? max_def c) (pf_defs w));
  pf_vok : Forall (leaf_ok (c_prim c)) (pf_vals w);
  pf_vstr : Forall (fun v => nlen (str_of v) < 2 ^ 31) (pf_vals w);
  pf_entries : pv_entries pv = zip_entries (pf_reps w) (pf_defs w) (max_def c) (pf_vals w)
}.

Lemma check_page_facts c codec off bs pv used :
  codec_wf -> wf_bytes bs -> max_def c <= 15 -> max_rep c <= 15 ->
  check_page decompress c codec off bs = inr (pv, used) -> exists w, page_facts codec c bs pv used w.
Proof.
  intros Hwfd Hwf Hd15 Hr15 Hchk.
  destruct (check_page_inv _ _ _ _ _ _ Hchk)
    as (ph & rest & dph & payload & reps & p1 & defs & p2 & vals & Hdec & Hty & Hdata & Henc & Hdenc & Hrenc &
        Hc0 & Hu0 & Hn0 & Hbody & Hdc & Hunc & Hnz & Hreps & Hdefs & Hpl & Hes & Hph & Hhl & Hused).
  destruct (dec_page_header_local _ _ _ Hdec) as (pre & Hbs & Hprelen & Hloc).
  destruct (dec_page_header_i32 _ _ _ Hdec) as (Hui & _ & Hni). rewrite Hdata in Hni.
  apply i32_ok_lt in Hui. apply i32_ok_lt in Hni.
  set (clen := N.to_nat (Z.to_N (ph_compressed_size ph))) in *.
  set (body := firstn clen rest) in *.
  assert (Hbl : length body = clen) by (apply firstn_length_le; exact Hbody).
  assert (Hlenbs : length bs = (length pre + length rest)%nat) by (rewrite Hbs at 1; apply app_length).
  assert (Hu : N.to_nat used = (length pre + length body)%nat) by (rewrite Hused, Hbl; unfold clen; lia).
  assert (Hwrest : wf_bytes rest) by (rewrite Hbs in Hwf; apply wf_bytes_app in Hwf; apply Hwf).
  assert (Hwpay : wf_bytes payload) by (apply (Hwfd codec body payload); [apply wf_bytes_firstn; exact Hwrest | exact Hdc]).
  assert (Hsmall : nlen payload < 2 ^ 31).
  { rewrite Hunc. change (2 ^ 31)%Z with 2147483648%Z in Hui. change (2 ^ 31) with 2147483648. lia. }
  set (nv := dph_num_values dph) in *.
  assert (Hnv : (1 <= nv < 2 ^ 31)%Z) by lia.
  (* the level sections *)
  assert (Hlev : exists l1 l2,
             (if col_required c then l1 = 0%nat /\ l2 = 0%nat
              else (if 0 <? max_rep c then read_levels (Reader.bit_width (max_rep c)) payload 0 nv = Ok (reps, l1)
                    else l1 = 0%nat) /\
                   read_levels (Reader.bit_width (max_def c)) payload l1 nv = Ok (defs, l2)) /\
             skipn (l1 + l2) payload = p2 /\ (l1 + l2 <= length payload)%nat /\
             length reps = Z.to_nat nv /\ length defs = Z.to_nat nv /\
             Forall (fun r => r <= max_rep c) reps /\ Forall (fun d => d <= max_def c) defs).
  { destruct (col_required c) eqn:Hreq.
    - destruct (col_required_true c Hreq) as [Hd0 Hr0]. rewrite Hd0, Hr0 in *.
      change (0 <? 0) with false in Hreps, Hdefs. destruct Hreps as [-> ->]. destruct Hdefs as [-> ->].
      exists 0%nat, 0%nat. split; [split; reflexivity|]. split; [reflexivity|]. split; [lia|].
      split; [apply repeat_length|]. split; [apply repeat_length|].
      split; apply Forall_forall; intros x Hx; apply repeat_spec in Hx; subst x; lia.
    - pose proof (col_required_false c Hreq) as Hd1.
      replace (0 <? max_def c) with true in Hdefs by lia.
      destruct (levels_conf c payload nv reps p1 defs p2 Hwpay Hsmall) as (l1 & l2 & H1 & H2 & H3 & H4 & H5 & H6 & H7 & H8);
        [lia | exact Hr15 | lia | exact Hreps | exact Hdefs |].
      exists l1, l2. repeat split; assumption. }
  destruct Hlev as (l1 & l2 & Hlv & Hsk & Hlfit & Hrl & Hdl & Hrmax & Hdmax).
  assert (Hwp2 : wf_bytes p2) by (rewrite <- Hsk; apply wf_bytes_skipn; exact Hwpay).
  destruct (plain_dec_strict_inv _ _ _ _ Hwp2 Hpl) as (Hp2 & Hvlen & Hvok & Hvstr).
  exists {| pf_ph := ph; pf_dph := dph; pf_pre := pre; pf_body := body; pf_payload := payload;
            pf_reps := reps; pf_defs := defs; pf_l1 := l1; pf_l2 := l2; pf_vals := vals |}.
  constructor; cbn [pf_ph pf_dph pf_pre pf_body pf_payload pf_reps pf_defs pf_l1 pf_l2 pf_vals]; try assumption.
  - lia.
  - rewrite Hu, Hbs. rewrite firstn_app, firstn_all2 by lia.
    replace (length pre + length body - length pre)%nat with clen by lia. reflexivity.
  - rewrite Hhl. unfold nlen. lia.
  - rewrite Hsk. exact Hp2.
  - eapply Forall_impl; [|exact Hvstr]. intros v Hv. cbv beta in Hv.
    assert (nlen p2 <= nlen payload) by (rewrite <- Hsk; unfold nlen; rewrite skipn_length; lia). lia.
Qed.

Lemma facts_entries codec c bs pv used w :
  page_facts codec c bs pv used w ->
  map e_def (pv_entries pv) = pf_defs w /\ map e_rep (pv_entries pv) = pf_reps w /\
  entry_vals (pv_entries pv) = pf_vals w /\
  length (pv_entries pv) = Z.to_nat (dph_num_values (pf_dph w)) /\ lev_ok c (pv_entries pv).
Proof.
  intros F. rewrite (pf_entries _ _ _ _ _ _ F).
  assert (Hl : length (pf_reps w) = length (pf_defs w))
    by (rewrite (pf_rl _ _ _ _ _ _ F), (pf_dl _ _ _ _ _ _ F); reflexivity).
  pose proof (pf_vlen _ _ _ _ _ _ F) as Hv.
  destruct (zip_entries_spec (max_def c) _ _ _ Hl Hv) as (H1 & H2 & H3).
  split; [exact H1|]. split; [exact H2|]. split; [exact H3|]. split.
  - rewrite (zip_entries_length _ _ _ _ Hl Hv). apply (pf_dl _ _ _ _ _ _ F).
  - apply zip_entries_lev_ok; [exact Hl | exact Hv | apply (pf_rmax _ _ _ _ _ _ F) | apply (pf_dmax _ _ _ _ _ _ F)].
Qed.

Lemma supported_conf ph dph defs reps :
  ph_type ph = PT_DATA_PAGE -> ph_data ph = Some dph -> dph_encoding dph = ENC_PLAIN ->
  (defs = true -> dph_def_encoding dph = ENC_RLE) -> (reps = true -> dph_rep_encoding dph = ENC_RLE) ->
  supported_page ph defs reps = Some dph.
Proof.
  intros Hty Hdata Henc Hd Hr. unfold supported_page. rewrite Hty, Hdata, Henc, !Z.eqb_refl. cbn [negb].
  destruct defs; [rewrite (Hd eq_refl), Z.eqb_refl|]; destruct reps; try (rewrite (Hr eq_refl), Z.eqb_refl); reflexivity.
Qed.

(** one iteration of RequiredField.DoRead on a page the validator accepted *)
Lemma conf_req_step codec c bs pv used w :
  codec_id -> codec_supported codec = true -> col_required c = true ->
  page_facts codec c bs pv used w ->
  req_step decompress codec c (firstn (N.to_nat used) bs) (pv_entries pv).
Proof.
  intros Hid Hsup Hreq F s rest f pgn nread acc sizes Hfail Hrem Hlt.
  destruct (facts_entries _ _ _ _ _ _ F) as (_ & _ & Hvals & Hlen & _).
  rewrite (pf_first _ _ _ _ _ _ F), <- app_assoc in Hrem.
  cbn [do_read_required]. replace (nread <? pgn)%Z with true by lia.
  destruct (m_read_struct_ok dec_page_header s (pf_ph w) (pf_pre w) (pf_body w ++ rest) Hfail Hrem
              (pf_loc _ _ _ _ _ _ F _)) as (s1 & Hh & Hadv1).
  rewrite (bind_ok _ _ _ _ _ Hh).
  rewrite (supported_conf _ _ false false (pf_type _ _ _ _ _ _ F) (pf_data _ _ _ _ _ _ F) (pf_enc _ _ _ _ _ _ F))
    by discriminate.
  pose proof (rem_adv_app _ _ _ _ Hrem Hadv1) as Hrem1.
  destruct (page_data_conf codec (pf_ph w) (pf_body w) (pf_payload w) s1 rest Hid Hsup
              (pf_c0 _ _ _ _ _ _ F) (pf_u0 _ _ _ _ _ _ F) (pf_blen _ _ _ _ _ _ F) (pf_dc _ _ _ _ _ _ F)
              (pf_unc _ _ _ _ _ _ F) (adv_fail _ _ _ Hadv1) Hrem1) as (s2 & Hd & Hadv2).
  rewrite (bind_ok _ _ _ _ _ Hd).
  exists s2. split.
  - pose proof (pf_levels _ _ _ _ _ _ F) as Hl. rewrite Hreq in Hl. destruct Hl as [Hl1 Hl2].
    pose proof (pf_plain _ _ _ _ _ _ F) as Hp. rewrite Hl1, Hl2 in Hp. cbn [Nat.add skipn] in Hp.
    pose proof (pf_nv _ _ _ _ _ _ F) as Hnv.
    rewrite Hvals, Hlen, Hp. rewrite Z2Nat.id by lia. reflexivity.
  - rewrite (pf_first _ _ _ _ _ _ F), app_length. exact (adv_trans _ _ _ _ _ Hadv1 Hadv2).
Qed.

(** one iteration of OptionalField.DoRead on a page the validator accepted *)
Lemma conf_opt_step codec c bs pv used w :
  codec_id -> codec_supported codec = true -> col_required c = false ->
  page_facts codec c bs pv used w ->
  opt_step decompress codec c (firstn (N.to_nat used) bs) (pv_entries pv).
Proof.
  intros Hid Hsup Hreq F s rest f size nread acc Hfail Hrem Hlt.
  destruct (facts_entries _ _ _ _ _ _ F) as (Hdefs & Hreps & Hvals & Hlen & _).
  pose proof (col_required_false c Hreq) as Hd1.
  rewrite (pf_first _ _ _ _ _ _ F), <- app_assoc in Hrem.
  cbn [do_read_optional]. replace (nread <? size)%Z with true by lia.
  unfold get_pos at 1. unfold bind at 1.
  destruct (m_read_struct_ok dec_page_header s (pf_ph w) (pf_pre w) (pf_body w ++ rest) Hfail Hrem
              (pf_loc _ _ _ _ _ _ F _)) as (s1 & Hh & Hadv1).
  rewrite (bind_ok _ _ _ _ _ Hh).
  rewrite (supported_conf _ _ true (0 <? max_rep c) (pf_type _ _ _ _ _ _ F) (pf_data _ _ _ _ _ _ F) (pf_enc _ _ _ _ _ _ F)).
  2:{ intros _. apply (pf_denc _ _ _ _ _ _ F). lia. }
  2:{ apply (pf_renc _ _ _ _ _ _ F). }
  pose proof (rem_adv_app _ _ _ _ Hrem Hadv1) as Hrem1.
  destruct (page_data_conf codec (pf_ph w) (pf_body w) (pf_payload w) s1 rest Hid Hsup
              (pf_c0 _ _ _ _ _ _ F) (pf_u0 _ _ _ _ _ _ F) (pf_blen _ _ _ _ _ _ F) (pf_dc _ _ _ _ _ _ F)
              (pf_unc _ _ _ _ _ _ F) (adv_fail _ _ _ Hadv1) Hrem1) as (s2 & Hd & Hadv2).
  rewrite (bind_ok _ _ _ _ _ Hd). unfold get_pos at 1. unfold bind at 1.
  pose proof (adv_trans _ _ _ _ _ Hadv1 Hadv2) as Hadv. rewrite <- app_length in Hadv.
  assert (Hpos : Z.of_N (s_pos s2 - s_pos s) = Z.of_nat (length (pf_pre w ++ pf_body w))).
  { destruct Hadv as (_ & _ & Hp). rewrite Hp. lia. }
  rewrite Hpos.
  pose proof (pf_levels _ _ _ _ _ _ F) as Hl. rewrite Hreq in Hl. destruct Hl as [Hl1 Hl2].
  pose proof (pf_lfit _ _ _ _ _ _ F) as Hfit. pose proof (pf_plain _ _ _ _ _ _ F) as Hp.
  pose proof (pf_vlen _ _ _ _ _ _ F) as Hvl.
  rewrite (pf_first _ _ _ _ _ _ F).
  destruct (0 <? max_rep c) eqn:Erep.
  - rewrite Hl1. cbn [lift]. unfold ret at 1. unfold bind at 1. cbv beta iota.
    rewrite Hl2. cbn [lift]. unfold ret at 1. unfold bind at 1. cbv beta iota.
    replace (Nat.ltb (length (pf_payload w)) (pf_l1 w + pf_l2 w)) with false by (symmetry; apply Nat.ltb_ge; exact Hfit).
    exists s2. split; [|exact Hadv].
    unfold page_reps. rewrite Erep, Hdefs, Hreps, Hvals, Hp, Hvl. reflexivity.
  - unfold ret at 1. unfold bind at 1. cbv beta iota. rewrite Hl1 in *.
    rewrite Hl2. cbn [lift]. unfold ret at 1. unfold bind at 1. cbv beta iota.
    replace (Nat.ltb (length (pf_payload w)) (0 + pf_l2 w)) with false by (symmetry; apply Nat.ltb_ge; exact Hfit).
    exists s2. split; [|exact Hadv].
    unfold page_reps. rewrite Erep, Hdefs, Hvals, Hp, Hvl. reflexivity.
Qed.

(** (b): a page accepted by [check_page] is a good page of the generic reader lemmas *)
Theorem check_page_good c codec off bs pv used :
  codec_id -> codec_wf -> codec_supported codec = true -> wf_bytes bs ->
  max_def c <= 15 -> max_rep c <= 15 ->
  check_page decompress c codec off bs = inr (pv, used) ->
  (N.to_nat used <= length bs)%nat /\
  page_good decompress codec c (firstn (N.to_nat used) bs, pv_entries pv).
Proof.
  intros Hid Hwfd Hsup Hwf Hd15 Hr15 Hchk.
  destruct (check_page_facts _ _ _ _ _ _ Hwfd Hwf Hd15 Hr15 Hchk) as (w & F).
  destruct (facts_entries _ _ _ _ _ _ F) as (_ & _ & Hvals & Hlen & Hlev).
  pose proof (pf_nv _ _ _ _ _ _ F) as Hnv.
  split; [rewrite (pf_used _ _ _ _ _ _ F); apply (pf_fit _ _ _ _ _ _ F)|].
  unfold page_good. cbn [fst snd].
  split. { intros E. rewrite E in Hlen. cbn [length] in Hlen. lia. }
  split. { rewrite (pf_first _ _ _ _ _ _ F), app_length. pose proof (pf_pre_pos _ _ _ _ _ _ F). lia. }
  split; [exact Hlev|]. rewrite Hvals.
  split; [apply (pf_vok _ _ _ _ _ _ F)|]. split; [apply (pf_vstr _ _ _ _ _ _ F)|].
  destruct (col_required c) eqn:Hreq; [eapply conf_req_step | eapply conf_opt_step]; eassumption.
Qed.

(** ** The generic reader lemmas of [ForeignProofs] (layers D0, D1, F), over [decompress] alone *)

Notation gpage := (bytes * list entry)%type (only parsing).

Lemma good_entries_len' codec c pgs :
  Forall (page_good decompress codec c) pgs -> (length pgs <= length (gentries pgs))%nat.
Proof.
  induction 1 as [|p pgs Hp _ IH]; [cbn; lia|].
  rewrite gentries_cons, app_length. cbn [length]. destruct Hp as (Hne & _).
  destruct (snd p); [congruence | cbn [length]; lia].
Qed.

Lemma good_bytes_len' codec c pgs :
  Forall (page_good decompress codec c) pgs -> (length pgs <= length (gbytes pgs))%nat.
Proof.
  induction 1 as [|p pgs Hp _ IH]; [cbn; lia|].
  rewrite gbytes_cons, app_length. cbn [length]. destruct Hp as (_ & Hb & _). lia.
Qed.

Lemma required_prefix' codec c : forall pgs s rest f pgn nread acc sizes,
  Forall (page_good decompress codec c) pgs -> col_required c = true -> s_fail s = None ->
  rem s = gbytes pgs ++ rest ->
  (nread + Z.of_nat (length (gentries pgs)) <= pgn)%Z ->
  exists s',
    do_read_required decompress (length pgs + f) codec pgn nread acc sizes s =
    do_read_required decompress f codec pgn (nread + Z.of_nat (length (gentries pgs)))
      (acc ++ concat (map (fun p : gpage => plain_enc (c_prim c) (entry_vals (snd p))) pgs))
      (sizes ++ map (fun p : gpage => length (snd p)) pgs) s' /\
    adv s (length (gbytes pgs)) s'.
Proof.
  induction pgs as [|p pgs IH]; intros s rest f pgn nread acc sizes Hgood Hreq Hfail Hrem Hle.
  - exists s. cbn [gentries gbytes map concat length Nat.add]. rewrite !app_nil_r, Z.add_0_r.
    split; [reflexivity | apply adv_refl; exact Hfail].
  - inversion Hgood as [|p' pgs' Hp Hpgs]; subst p' pgs'.
    rewrite gbytes_cons, <- app_assoc in Hrem. rewrite gentries_cons, app_length in Hle |- *.
    pose proof Hp as (Hne & _ & _ & _ & _ & Hstep). rewrite Hreq in Hstep.
    assert (Hpos : (1 <= length (snd p))%nat) by (destruct (snd p); [congruence | cbn [length]; lia]).
    cbn [length Nat.add].
    destruct (Hstep s _ (length pgs + f)%nat pgn nread acc sizes Hfail Hrem) as (s1 & Hs & Hadv1); [lia|].
    rewrite Hs.
    destruct (IH s1 rest f pgn (nread + Z.of_nat (length (snd p)))%Z
                 (acc ++ plain_enc (c_prim c) (entry_vals (snd p))) (sizes ++ [length (snd p)])
                 Hpgs Hreq (adv_fail _ _ _ Hadv1) (rem_adv_app _ _ _ _ Hrem Hadv1)) as (s2 & Hrun & Hadv2); [lia|].
    exists s2. rewrite Hrun. cbn [map concat]. rewrite <- !app_assoc. cbn [app]. split.
    + f_equal. lia.
    + rewrite gbytes_cons, app_length. exact (adv_trans _ _ _ _ _ Hadv1 Hadv2).
Qed.

Lemma optional_prefix' codec c : forall pgs s rest f size nread acc,
  Forall (page_good decompress codec c) pgs -> col_required c = false -> s_fail s = None ->
  rem s = gbytes pgs ++ rest ->
  (nread + Z.of_nat (length (gbytes pgs)) <= size)%Z ->
  exists s',
    do_read_optional decompress (length pgs + f) codec (max_def c) (max_rep c) size nread acc s =
    do_read_optional decompress f codec (max_def c) (max_rep c) size
      (nread + Z.of_nat (length (gbytes pgs)))
      {| oa_reps := oa_reps acc ++ concat (map (fun p : gpage => page_reps c (snd p)) pgs);
         oa_defs := oa_defs acc ++ concat (map (fun p : gpage => map e_def (snd p)) pgs);
         oa_out := oa_out acc ++ concat (map (fun p : gpage => plain_enc (c_prim c) (entry_vals (snd p))) pgs);
         oa_sizes := oa_sizes acc ++ map (fun p : gpage => length (entry_vals (snd p))) pgs |} s' /\
    adv s (length (gbytes pgs)) s'.
Proof.
  induction pgs as [|p pgs IH]; intros s rest f size nread acc Hgood Hreq Hfail Hrem Hle.
  - exists s. cbn [gentries gbytes map concat length Nat.add]. rewrite !app_nil_r, Z.add_0_r.
    split; [destruct acc; reflexivity | apply adv_refl; exact Hfail].
  - inversion Hgood as [|p' pgs' Hp Hpgs]; subst p' pgs'.
    rewrite gbytes_cons, <- app_assoc in Hrem. rewrite gbytes_cons, app_length in Hle |- *.
    pose proof Hp as (_ & Hpos & _ & _ & _ & Hstep). rewrite Hreq in Hstep.
    cbn [length Nat.add].
    destruct (Hstep s _ (length pgs + f)%nat size nread acc Hfail Hrem) as (s1 & Hs & Hadv1); [lia|].
    rewrite Hs.
    match goal with |- context [do_read_optional _ _ _ _ _ _ _ ?a s1] => set (acc1 := a) end.
    destruct (IH s1 rest f size (nread + Z.of_nat (length (fst p)))%Z acc1
                 Hpgs Hreq (adv_fail _ _ _ Hadv1) (rem_adv_app _ _ _ _ Hrem Hadv1)) as (s2 & Hrun & Hadv2); [lia|].
    exists s2. rewrite Hrun. unfold acc1. cbn [oa_reps oa_defs oa_out oa_sizes map concat].
    rewrite <- !app_assoc. cbn [app]. split.
    + f_equal. lia.
    + exact (adv_trans _ _ _ _ _ Hadv1 Hadv2).
Qed.

Lemma required_done' f codec pgn acc sizes s :
  do_read_required decompress f codec pgn pgn acc sizes s = Ok ((acc, sizes), s).
Proof. destruct f; cbn [do_read_required]; rewrite Z.ltb_irrefl; reflexivity. Qed.

Lemma optional_done' f codec maxdef maxrep size acc s :
  do_read_optional decompress f codec maxdef maxrep size size acc s = Ok (acc, s).
Proof. destruct f; cbn [do_read_optional]; rewrite Z.ltb_irrefl; reflexivity. Qed.

Theorem read_chunk_good' codec c pgs cm s rest :
  Forall (page_good decompress codec c) pgs -> s_fail s = None ->
  rem s = gbytes pgs ++ rest ->
  cm_codec cm = codec ->
  cm_num_values cm = Z.of_nat (length (gentries pgs)) ->
  cm_total_compressed cm = Z.of_nat (length (gbytes pgs)) ->
  exists s', read_chunk decompress c cm s = Ok (gentries pgs, s') /\
             adv s (length (gbytes pgs)) s'.
Proof.
  intros Hgood Hfail Hrem Hcod Hnv Htot.
  pose proof (good_lev_ok decompress codec c pgs Hgood) as Hlev.
  set (ess := map snd pgs).
  assert (Hty : Forall (Forall (leaf_ok (c_prim c))) (map entry_vals ess)).
  { unfold ess. rewrite map_map. apply Forall_map. eapply Forall_impl; [|exact Hgood].
    intros p (_ & _ & _ & H & _). exact H. }
  assert (Hstr : Forall (Forall (fun v => nlen (str_of v) < 2 ^ 31)) (map entry_vals ess)).
  { unfold ess. rewrite map_map. apply Forall_map. eapply Forall_impl; [|exact Hgood].
    intros p (_ & _ & _ & _ & H & _). exact H. }
  assert (Hout : concat (map (fun p : gpage => plain_enc (c_prim c) (entry_vals (snd p))) pgs) =
                 concat (map (plain_enc (c_prim c)) (map entry_vals ess))).
  { unfold ess. rewrite !map_map. reflexivity. }
  unfold read_chunk. cbv zeta. rewrite Hcod, Hnv, Htot.
  destruct (col_required c) eqn:Hreq.
  - pose proof (good_entries_len' codec c pgs Hgood) as Hlen.
    destruct (required_prefix' codec c pgs s rest
                (S (Z.to_nat (Z.of_nat (length (gentries pgs)))) - length pgs)%nat
                (Z.of_nat (length (gentries pgs))) 0%Z [] [] Hgood Hreq Hfail Hrem) as (s' & Hrun & Hadv); [lia|].
    replace (length pgs + (S (Z.to_nat (Z.of_nat (length (gentries pgs)))) - length pgs))%nat
      with (S (Z.to_nat (Z.of_nat (length (gentries pgs))))) in Hrun by lia.
    rewrite Z.add_0_l, required_done' in Hrun.
    rewrite (bind_ok _ _ _ _ _ Hrun). cbv beta iota. cbn [app]. rewrite Hout.
    replace (map (fun p : gpage => length (snd p)) pgs) with (map (@length value) (map entry_vals ess)).
    2:{ unfold ess. rewrite !map_map. apply map_ext_in. intros p Hp. rewrite Forall_forall in Hgood.
        destruct (Hgood p Hp) as (_ & _ & Hl & _). apply (required_count c _ Hreq Hl). }
    rewrite decode_values_ok; [|exact Hty|exact Hstr|].
    2:{ rewrite <- entry_vals_concat. change (concat ess) with (gentries pgs). rewrite (required_count c _ Hreq Hlev). reflexivity. }
    cbn [lift]. unfold ret at 1. unfold bind at 1. unfold ret.
    rewrite <- entry_vals_concat. change (concat ess) with (gentries pgs). rewrite (required_entries c _ Hreq Hlev).
    exists s'. split; [reflexivity|exact Hadv].
  - pose proof (good_bytes_len' codec c pgs Hgood) as Hlen.
    destruct (optional_prefix' codec c pgs s rest
                (S (Z.to_nat (Z.of_nat (length (gbytes pgs)))) - length pgs)%nat
                (Z.of_nat (length (gbytes pgs))) 0%Z
                {| oa_reps := []; oa_defs := []; oa_out := []; oa_sizes := [] |}
                Hgood Hreq Hfail Hrem) as (s' & Hrun & Hadv); [lia|].
    replace (length pgs + (S (Z.to_nat (Z.of_nat (length (gbytes pgs)))) - length pgs))%nat
      with (S (Z.to_nat (Z.of_nat (length (gbytes pgs))))) in Hrun by lia.
    rewrite Z.add_0_l, optional_done' in Hrun.
    rewrite (bind_ok _ _ _ _ _ Hrun). cbv zeta. cbn [oa_reps oa_defs oa_out oa_sizes app]. rewrite Hout.
    replace (concat (map (fun p : gpage => map e_def (snd p)) pgs)) with (map e_def (gentries pgs)).
    2:{ unfold gentries. rewrite concat_map, map_map. reflexivity. }
    rewrite (count_maxdef c _ Hlev).
    replace (map (fun p : gpage => length (entry_vals (snd p))) pgs)
      with (map (@length value) (map entry_vals ess)) by (unfold ess; rewrite !map_map; reflexivity).
    rewrite decode_values_ok; [|exact Hty|exact Hstr|].
    2:{ rewrite <- entry_vals_concat. reflexivity. }
    cbn [lift]. unfold ret at 1. unfold bind at 1. unfold ret.
    exists s'. split; [|exact Hadv]. f_equal. f_equal.
    rewrite <- entry_vals_concat. change (concat ess) with (gentries pgs).
    destruct (0 <? max_rep c) eqn:Erep.
    + replace (concat (map (fun p : gpage => page_reps c (snd p)) pgs)) with (map e_rep (gentries pgs)).
      * apply zip_levels_reps. exact Hlev.
      * unfold gentries. rewrite concat_map, map_map. f_equal. apply map_ext. intros p.
        unfold page_reps. rewrite Erep. reflexivity.
    + replace (concat (map (fun p : gpage => page_reps c (snd p)) pgs)) with (@nil N).
      * apply zip_levels_noreps; [lia | exact Hlev].
      * symmetry. apply concat_nil_Forall. apply Forall_map. apply Forall_forall. intros p _.
        unfold page_reps. rewrite Erep. reflexivity.
Qed.

(** ** (c) Pages of a chunk *)

Lemma slice_eq off len bs : slice off len bs = firstn (N.to_nat len) (skipn (N.to_nat off) bs).
Proof. reflexivity. Qed.

Lemma slice_app a l1 l2 f : slice a (l1 + l2) f = slice a l1 f ++ slice (a + l1) l2 f.
Proof.
  unfold slice. rewrite !N2Nat.inj_add, firstn_add_skipn, skipn_add. reflexivity.
Qed.

Lemma check_pages_good c codec : forall fuel off remaining bs pvs,
  codec_id -> codec_wf -> codec_supported codec = true -> wf_bytes bs ->
  max_def c <= 15 -> max_rep c <= 15 ->
  check_pages decompress fuel c codec off remaining bs = inr pvs ->
  exists pgs, Forall (page_good decompress codec c) pgs /\ map snd pgs = map pv_entries pvs /\
              gbytes pgs = firstn (N.to_nat remaining) bs /\ (N.to_nat remaining <= length bs)%nat.
Proof.
  induction fuel as [|fuel IH]; intros off remaining bs pvs Hid Hwfd Hsup Hwf Hd15 Hr15 H; [discriminate H|].
  cbn [check_pages] in H. destruct (remaining =? 0) eqn:E0.
  - apply N.eqb_eq in E0. subst remaining. injection H as <-. exists []. cbn [N.to_nat firstn map].
    split; [constructor|]. split; [reflexivity|]. split; [reflexivity | lia].
  - destruct (check_page decompress c codec off bs) as [e|[pv used]] eqn:Ep; [discriminate H|].
    destruct (remaining <? used) eqn:Eu; [discriminate H|]. apply N.ltb_ge in Eu.
    destruct (check_pages decompress fuel c codec (off + used) (remaining - used) (skipn (N.to_nat used) bs))
      as [e|pvs'] eqn:Er; [discriminate H|]. injection H as <-.
    destruct (check_page_good c codec off bs pv used Hid Hwfd Hsup Hwf Hd15 Hr15 Ep) as [Hfit Hgood].
    destruct (IH _ _ _ _ Hid Hwfd Hsup (wf_bytes_skipn _ _ Hwf) Hd15 Hr15 Er) as (pgs & Hg & Hes & Hb & Hl).
    rewrite skipn_length in Hl.
    exists ((firstn (N.to_nat used) bs, pv_entries pv) :: pgs).
    split; [constructor; assumption|]. split; [cbn [map snd]; rewrite Hes; reflexivity|].
    split; [|lia].
    rewrite gbytes_cons. cbn [fst]. rewrite Hb.
    replace (N.to_nat remaining) with (N.to_nat used + N.to_nat (remaining - used))%nat by lia.
    symmetry. apply firstn_add_skipn.
Qed.

(** ** One column chunk *)

Lemma check_chunk_reads file limit c pos cc cv pos' :
  codec_id -> codec_wf -> wf_bytes file -> max_def c <= 15 -> max_rep c <= 15 ->
  check_chunk decompress file limit c pos cc = inr (cv, pos') ->
  exists cm, cc_meta cc = Some cm /\ cm_path cm = c_path c /\ pos <= pos' /\ pos' <= limit /\
             cv_col cv = c /\
             chunk_reads decompress c cm (slice pos (pos' - pos) file) (chunk_entries cv).
Proof.
  intros Hid Hwfd Hwf Hd15 Hr15 H. unfold check_chunk in H.
  destruct (cc_meta cc) as [cm|]; [|discriminate H].
  destruct (path_eq (cm_path cm) (c_path c)) eqn:Epath; [|discriminate H]. cbn [negb] in H.
  destruct (Z.eqb (cm_type cm) (phys_type (c_prim c))); [|discriminate H]. cbn [negb] in H.
  destruct (codec_supported (cm_codec cm)) eqn:Esup; [|discriminate H]. cbn [negb] in H.
  destruct (Z.eqb (cm_data_page_offset cm) (Z.of_N pos)); [|discriminate H]. cbn [negb] in H.
  destruct ((cm_total_compressed cm <? 0) || (cm_total_uncompressed cm <? 0) || (cm_num_values cm <? 0))%Z eqn:Esz;
    [discriminate H|].
  cbv zeta in H. set (total := Z.to_N (cm_total_compressed cm)) in *.
  destruct (limit <? pos + total) eqn:Elim; [discriminate H|]. apply N.ltb_ge in Elim.
  destruct (negb (Z.eqb (cc_file_offset cc) 0 || Z.eqb (cc_file_offset cc) (Z.of_N pos)
                  || Z.eqb (cc_file_offset cc) (Z.of_N (pos + total)))); [discriminate H|].
  destruct (check_pages decompress (S (N.to_nat total)) c (cm_codec cm) pos total (skipn (N.to_nat pos) file))
    as [e|pvs] eqn:Ep; [discriminate H|].
  destruct (N.eqb_spec (Z.to_N (cm_num_values cm)) (sumN (map (fun pv => nlen (pv_entries pv)) pvs))) as [Hnv|_];
    [|discriminate H]. cbn [negb] in H.
  destruct (negb (Z.to_N (cm_total_uncompressed cm) =?
                  sumN (map (fun pv => pv_header_len pv + Z.to_N (ph_uncompressed_size (pv_header pv))) pvs)));
    [discriminate H|].
  injection H as <- <-.
  exists cm. split; [reflexivity|]. split.
  { unfold path_eq in Epath. destruct (list_eq_dec (list_eq_dec N.eq_dec) (cm_path cm) (c_path c)); [assumption|discriminate]. }
  split; [lia|]. split; [exact Elim|]. split; [reflexivity|].
  replace (pos + total - pos) with total by lia.
  destruct (check_pages_good c (cm_codec cm) _ _ _ _ _ Hid Hwfd Esup (wf_bytes_skipn _ _ Hwf) Hd15 Hr15 Ep)
    as (pgs & Hgood & Hes & Hb & Hl).
  intros s rest Hfail Hrem. unfold chunk_entries. cbn [cv_pages].
  assert (Hge : gentries pgs = flat_map pv_entries pvs).
  { unfold gentries. rewrite Hes. symmetry. apply flat_map_concat_map. }
  rewrite slice_eq, <- Hb in Hrem |- *. rewrite <- Hge.
  apply (read_chunk_good' (cm_codec cm) c pgs cm s rest Hgood Hfail Hrem eq_refl).
  - rewrite Hge, flat_map_concat_map.
    rewrite <- (map_map pv_entries (@nlen entry)), sumN_map_nlen' in Hnv. unfold nlen in Hnv. lia.
  - rewrite Hb, firstn_length_le by exact Hl. unfold total. lia.
Qed.

(** ** The chunks of a row group *)

Definition cols_depth_ok (cols : list col) : Prop := Forall (fun c => max_def c <= 15 /\ max_rep c <= 15) cols.

Lemma skipn_cons_nth {A} : forall k (l : list A) c r,
  skipn k l = c :: r -> nth_error l k = Some c /\ skipn (S k) l = r.
Proof.
  induction k as [|k IH]; intros l c r H; destruct l as [|x l]; try discriminate H.
  - cbn [skipn] in H. injection H as -> ->. split; reflexivity.
  - cbn [skipn nth_error] in H |- *. apply IH. exact H.
Qed.

Lemma check_chunks_reads file limit allcols : forall cols k pos ccs cvs pos',
  codec_id -> codec_wf -> wf_bytes file ->
  NoDup (map c_path allcols) -> cols_depth_ok allcols -> skipn k allcols = cols ->
  check_chunks decompress file limit cols pos ccs = inr (cvs, pos') ->
  exists xs, Forall2 (cc_reads decompress allcols) xs ccs /\
             cbytes xs = slice pos (pos' - pos) file /\ pos <= pos' /\
             map ci_idx xs = seq k (length xs) /\ map ci_es xs = map chunk_entries cvs /\
             length xs = length cols /\ (cols <> [] -> pos' <= limit).
Proof.
  induction cols as [|c cols IH]; intros k pos ccs cvs pos' Hid Hwfd Hwf Hnd Hdepth Hk H.
  - destruct ccs as [|cc ccs]; [|discriminate H]. cbn [check_chunks] in H. injection H as <- <-.
    exists []. split; [constructor|]. split.
    { rewrite N.sub_diag. reflexivity. }
    split; [lia|]. split; [reflexivity|]. split; [reflexivity|]. split; [reflexivity|]. intros E; congruence.
  - destruct ccs as [|cc ccs]; [discriminate H|]. cbn [check_chunks] in H.
    destruct (check_chunk decompress file limit c pos cc) as [e|[cv p1]] eqn:Ec; [discriminate H|].
    destruct (check_chunks decompress file limit cols p1 ccs) as [e|[cvs' p2]] eqn:Er; [discriminate H|].
    injection H as <- <-.
    destruct (skipn_cons_nth _ _ _ _ Hk) as [Hnth Hk'].
    assert (Hd : max_def c <= 15 /\ max_rep c <= 15).
    { unfold cols_depth_ok in Hdepth. rewrite Forall_forall in Hdepth. apply Hdepth. exact (nth_error_In _ _ Hnth). }
    destruct (check_chunk_reads file limit c pos cc cv p1 Hid Hwfd Hwf (proj1 Hd) (proj2 Hd) Ec)
      as (cm & Hmeta & Hpath & Hle1 & Hlim1 & _ & Hrd).
    destruct (IH (S k) p1 ccs cvs' p2 Hid Hwfd Hwf Hnd Hdepth Hk' Er) as (xs & Hrel & Hb & Hle2 & Hidx & Hes & Hlen & Hlim2).
    exists ({| ci_idx := k; ci_col := c; ci_bytes := slice pos (p1 - pos) file; ci_es := chunk_entries cv |} :: xs).
    split.
    { constructor; [|exact Hrel]. exists cm. split; [exact Hmeta|]. cbn [ci_idx ci_col ci_bytes ci_es].
      split; [|exact Hrd]. rewrite Hpath. rewrite (find_col_nth allcols k c 0 Hnd Hnth). reflexivity. }
    split.
    { unfold cbytes in *. cbn [map concat ci_bytes]. rewrite Hb.
      replace (p2 - pos) with ((p1 - pos) + (p2 - p1)) by lia. rewrite slice_app.
      replace (pos + (p1 - pos)) with p1 by lia. reflexivity. }
    split; [lia|]. split; [cbn [map ci_idx length seq]; rewrite Hidx; reflexivity|].
    split; [cbn [map ci_es]; rewrite Hes; reflexivity|]. split; [cbn [length]; lia|].
    intros _. destruct cols as [|c' cols'].
    + destruct ccs as [|cc' ccs']; [|discriminate Er]. cbn [check_chunks] in Er. injection Er as _ <-. exact Hlim1.
    + apply Hlim2. discriminate.
Qed.

Lemma fold_set_idx : forall (xs : list citem) k (pre junk : list (list entry)),
  map ci_idx xs = seq k (length xs) -> length pre = k -> length junk = length xs ->
  fold_left (fun a x => set_nth (ci_idx x) (ci_es x) a) xs (pre ++ junk) = pre ++ map ci_es xs.
Proof.
  induction xs as [|x xs IH]; intros k pre junk Hidx Hpre Hjunk.
  - destruct junk; [reflexivity | discriminate].
  - destruct junk as [|j junk]; [discriminate|]. cbn [length] in Hjunk.
    cbn [map length seq] in Hidx. injection Hidx as Hx Hidx.
    cbn [fold_left map]. rewrite Hx, <- Hpre, set_nth_app.
    change (pre ++ ci_es x :: junk) with (pre ++ [ci_es x] ++ junk). rewrite app_assoc.
    rewrite (IH (S k)); [|exact Hidx|rewrite app_length; cbn [length]; lia|lia].
    rewrite <- app_assoc. reflexivity.
Qed.

(** the checks of Metadata.Pages on one row group *)
Definition rg_checks (fs : list field) (rg : row_group) : Prop :=
  forallb (fun cc => match cc_meta cc with
                     | Some cm => match find_col (columns fs) (cm_path cm) 0 with Some _ => true | None => false end
                     | None => true end) (rg_columns rg) = true /\
  forallb (fun cc => match cc_meta cc with Some _ => true | None => false end) (rg_columns rg) = true.

Lemma cc_reads_checks cols xs ccs :
  Forall2 (cc_reads decompress cols) xs ccs ->
  forallb (fun cc => match cc_meta cc with
                     | Some cm => match find_col cols (cm_path cm) 0 with Some _ => true | None => false end
                     | None => true end) ccs = true /\
  forallb (fun cc => match cc_meta cc with Some _ => true | None => false end) ccs = true.
Proof.
  induction 1 as [|x cc xs ccs (cm & Hmeta & Hfind & _) _ [IH1 IH2]]; [split; reflexivity|].
  cbn [forallb]. rewrite Hmeta, Hfind, IH1, IH2. split; reflexivity.
Qed.

(** ** One row group *)

Lemma check_row_group_reads file limit fs pos rg rv pos' :
  codec_id -> codec_wf -> wf_bytes file ->
  NoDup (map c_path (columns fs)) -> cols_depth_ok (columns fs) ->
  check_row_group decompress file limit fs (columns fs) pos rg = inr (rv, pos') ->
  rg_reads decompress fs rg (slice pos (pos' - pos) file) (rv_records rv) /\
  rg_num_rows rg = Z.of_N (rv_rows rv) /\ nlen (rv_records rv) = rv_rows rv /\ pos <= pos' /\
  rg_checks fs rg /\ (columns fs <> [] -> pos' <= limit).
Proof.
  intros Hid Hwfd Hwf Hnd Hdepth H. unfold check_row_group in H.
  destruct (check_chunks decompress file limit (columns fs) pos (rg_columns rg)) as [e|[cvs p1]] eqn:Ec; [discriminate H|].
  destruct (rg_num_rows rg <? 0)%Z eqn:Erows; [discriminate H|]. cbv zeta in H.
  destruct (negb (forallb (fun cv => count_rep0 (chunk_entries cv) =? Z.to_N (rg_num_rows rg)) cvs)); [discriminate H|].
  match type of H with (if ?b then _ else _) = _ => destruct b; [discriminate H|] end.
  destruct (assemble_records fs (map chunk_entries cvs)) as [recs|] eqn:Eas; [|discriminate H].
  destruct (N.eqb_spec (nlen recs) (Z.to_N (rg_num_rows rg))) as [Hn|_]; [|discriminate H]. cbn [negb] in H.
  injection H as <- <-. cbn [rv_records rv_rows].
  destruct (check_chunks_reads file limit (columns fs) (columns fs) 0 pos (rg_columns rg) cvs p1
              Hid Hwfd Hwf Hnd Hdepth eq_refl Ec) as (xs & Hrel & Hb & Hle & Hidx & Hes & Hlen & Hlim).
  split; [|split; [lia|split; [exact Hn|split; [exact Hle|split; [exact (cc_reads_checks _ _ _ Hrel)|exact Hlim]]]]].
  intros s rest Hfail Hrem. rewrite <- Hb in Hrem |- *.
  destruct (read_chunks_good decompress (columns fs) xs (rg_columns rg) (repeat [] (length (columns fs))) s rest
              Hrel Hfail Hrem) as (s' & Hrun & Hadv).
  unfold read_row_group. cbv zeta. rewrite (bind_ok _ _ _ _ _ Hrun). unfold ret.
  exists s'. split; [|exact Hadv].
  pose proof (fold_set_idx xs 0 [] (repeat [] (length (columns fs))) Hidx eq_refl) as Hfold.
  cbn [app] in Hfold. rewrite Hfold by (rewrite repeat_length; lia).
  rewrite Hes, Eas. reflexivity.
Qed.

(** ** The row groups of the file *)

Lemma check_row_groups_items file limit fs : forall rgs pos rvs pos',
  codec_id -> codec_wf -> wf_bytes file ->
  NoDup (map c_path (columns fs)) -> cols_depth_ok (columns fs) ->
  check_row_groups decompress file limit fs (columns fs) pos rgs = inr (rvs, pos') ->
  exists items,
    map ri_rg items = rgs /\ map ri_recs items = map rv_records rvs /\
    rbytes items = slice pos (pos' - pos) file /\ pos <= pos' /\
    Forall (ritem_ok decompress fs) items /\ Forall (rg_checks fs) rgs /\
    N.of_nat (length (rrecs items)) = sumN (map rv_rows rvs).
Proof.
  induction rgs as [|rg rgs IH]; intros pos rvs pos' Hid Hwfd Hwf Hnd Hdepth H.
  - cbn [check_row_groups] in H. injection H as <- <-. exists [].
    split; [reflexivity|]. split; [reflexivity|]. split; [rewrite N.sub_diag; reflexivity|]. split; [lia|].
    split; [constructor|]. split; [constructor|]. reflexivity.
  - cbn [check_row_groups] in H.
    destruct (check_row_group decompress file limit fs (columns fs) pos rg) as [e|[rv p1]] eqn:Eg; [discriminate H|].
    destruct (check_row_groups decompress file limit fs (columns fs) p1 rgs) as [e|[rvs' p2]] eqn:Er; [discriminate H|].
    injection H as <- <-.
    destruct (check_row_group_reads file limit fs pos rg rv p1 Hid Hwfd Hwf Hnd Hdepth Eg)
      as (Hrd & Hrows & Hn & Hle1 & Hchk & _).
    destruct (IH p1 rvs' p2 Hid Hwfd Hwf Hnd Hdepth Er)
      as (items & Hrgs & Hrecs & Hb & Hle2 & Hok & Hchks & Hsum).
    exists ({| ri_recs := rv_records rv; ri_rg := rg; ri_bytes := slice pos (p1 - pos) file |} :: items).
    split; [cbn [map ri_rg]; rewrite Hrgs; reflexivity|].
    split; [cbn [map ri_recs]; rewrite Hrecs; reflexivity|].
    split.
    { rewrite rbytes_cons. cbn [ri_bytes]. rewrite Hb.
      replace (p2 - pos) with ((p1 - pos) + (p2 - p1)) by lia. rewrite slice_app.
      replace (pos + (p1 - pos)) with p1 by lia. reflexivity. }
    split; [lia|]. split.
    { constructor; [|exact Hok]. unfold ritem_ok. cbn [ri_recs ri_rg ri_bytes].
      split; [unfold nlen in Hn; lia | exact Hrd]. }
    split; [constructor; assumption|].
    rewrite rrecs_cons, app_length. cbn [ri_recs map sumN]. unfold nlen in Hn. lia.
Qed.

(** ** The footer *)

Lemma open_footer_conf fs fm file s0 :
  12 <= nlen file ->
  le_dec (slice (nlen file - 8) 4 file) + 12 <= nlen file ->
  dec_file_meta (slice (nlen file - 8 - le_dec (slice (nlen file - 8) 4 file))
                       (le_dec (slice (nlen file - 8) 4 file)) file) = Some (fm, []) ->
  footer_checks fs fm -> s_fail s0 = None -> s_file s0 = file ->
  exists s1, open_footer fs s0 = Ok (fm, s1) /\ s_fail s1 = None /\ s_file s1 = file /\ s_pos s1 = 4.
Proof.
  intros Hn12 Hflen Hdec [Hchk1 Hchk2] Hfail Hfile.
  set (n := nlen file) in *. set (lenb := slice (n - 8) 4 file) in *. set (flen := le_dec lenb) in *.
  set (fstart := n - 8 - flen) in *.
  assert (HlenF : length file = N.to_nat n) by (unfold n, nlen; lia).
  unfold open_footer.
  destruct (m_seek_end_ok (-8) s0 Hfail) as (s1 & H1 & Hf1 & Hn1 & Hp1); [rewrite Hfile; fold n; lia|].
  rewrite (bind_ok _ _ _ _ _ H1). rewrite Hfile in Hf1, Hp1. fold n in Hp1.
  assert (Hrem1 : rem s1 = lenb ++ skipn 4 (skipn (N.to_nat (n - 8)) file)).
  { unfold rem. rewrite Hf1, Hp1. replace (Z.to_N (Z.of_N n + -8)) with (n - 8) by lia.
    unfold lenb. rewrite slice_eq. change (N.to_nat 4) with 4%nat. symmetry. apply firstn_skipn. }
  assert (Hl4 : length lenb = 4%nat).
  { unfold lenb. rewrite slice_eq. change (N.to_nat 4) with 4%nat. apply firstn_length_le. rewrite skipn_length. lia. }
  destruct (m_read_full_ok s1 lenb _ Hn1 Hrem1) as (s2 & H2 & Hadv2). rewrite Hl4 in H2.
  rewrite (bind_ok _ _ _ _ _ H2). fold flen.
  destruct Hadv2 as (Hf2 & Hn2 & _). rewrite Hf1 in Hf2.
  destruct (m_seek_end_ok (- (Z.of_N flen + 8)) s2 Hn2) as (s3 & H3 & Hf3 & Hn3 & Hp3); [rewrite Hf2; fold n; lia|].
  rewrite (bind_ok _ _ _ _ _ H3). rewrite Hf2 in Hf3, Hp3. fold n in Hp3.
  set (F := slice fstart flen file) in *.
  assert (Hrem3 : rem s3 = F ++ skipn (N.to_nat flen) (skipn (N.to_nat fstart) file)).
  { unfold rem. rewrite Hf3, Hp3. replace (Z.to_N (Z.of_N n + - (Z.of_N flen + 8))) with fstart by (unfold fstart; lia).
    unfold F. rewrite slice_eq. symmetry. apply firstn_skipn. }
  destruct (dec_file_meta_local _ _ _ Hdec) as (pre & Hpre & _ & Hloc). rewrite app_nil_r in Hpre. subst pre.
  destruct (m_read_struct_ok dec_file_meta s3 fm F _ Hn3 Hrem3 (Hloc _)) as (s4 & H4 & Hadv4).
  rewrite (bind_ok _ _ _ _ _ H4). destruct Hadv4 as (Hf4 & Hn4 & _). rewrite Hf3 in Hf4.
  rewrite Hchk1, Hchk2.
  destruct (m_seek_start_ok 4 s4 Hn4) as (s5 & H5 & Hf5 & Hn5 & Hp5); [lia|].
  rewrite (bind_ok _ _ _ _ _ H5). unfold ret. exists s5. split; [reflexivity|].
  split; [exact Hn5|]. split; [rewrite Hf5; exact Hf4 | exact Hp5].
Qed.

(** ** The file *)

Lemma check_file_inv file v :
  check_file decompress file = inr v ->
  let n := nlen file in
  let flen := le_dec (slice (n - 8) 4 file) in
  let fstart := n - 8 - flen in
  12 <= n /\ flen + 12 <= n /\
  dec_file_meta (slice fstart flen file) = Some (fv_meta v, []) /\
  check_row_groups decompress file fstart (fv_fields v) (columns (fv_fields v)) 4 (fm_row_groups (fv_meta v))
    = inr (fv_rgs v, fstart) /\
  fm_num_rows (fv_meta v) = Z.of_N (sumN (map rv_rows (fv_rgs v))).
Proof.
  unfold check_file. cbv zeta. intros H.
  destruct (nlen file <? 12) eqn:E12; [discriminate H|]. apply N.ltb_ge in E12.
  destruct (negb (bytes_eq (firstn 4 file) magic_bytes)); [discriminate H|].
  destruct (negb (bytes_eq (slice (nlen file - 4) 4 file) magic_bytes)); [discriminate H|].
  set (flen := le_dec (slice (nlen file - 8) 4 file)) in *.
  destruct (nlen file <? flen + 12) eqn:Efl; [discriminate H|]. apply N.ltb_ge in Efl.
  set (fstart := nlen file - 8 - flen) in *.
  destruct (dec_file_meta (slice fstart flen file)) as [[fm tl]|] eqn:Edec; [|discriminate H].
  destruct tl as [|t tl]; [|discriminate H].
  destruct (parse_schema (fm_schema fm)) as [e|fs] eqn:Eps; [discriminate H|].
  destruct (check_row_groups decompress file fstart fs (columns fs) 4 (fm_row_groups fm)) as [e|[rvs pos]] eqn:Erg;
    [discriminate H|].
  destruct (N.eqb_spec pos fstart) as [Hpos|_]; [|discriminate H]. cbn [negb] in H.
  destruct (Z.eqb_spec (fm_num_rows fm) (Z.of_N (sumN (map rv_rows rvs)))) as [Hrows|_]; [|discriminate H].
  cbn [negb] in H. injection H as <-. cbn [fv_meta fv_fields fv_rgs]. subst pos.
  split; [exact E12|]. split; [exact Efl|]. split; [reflexivity|]. split; [exact Erg | exact Hrows].
Qed.

(** The reader model decodes every conformant file of the supported subset.
    Hypotheses beyond [check_file ... = inr v]:
    - the reader's struct shape is the file's schema ([fv_fields v = fs]);
    - column paths are distinct and levels fit 4 bits (the library's level
      decoder is translated for widths 1..4);
    - (nothing about the row counts: a row group may have zero rows, first,
      last or several in a row; the loop of Next reads and skips it, it
      contributes no record to [view_records v] and 0 to the sum);
    - the file and whatever [decompress] returns consist of bytes, and the
      identity codec is the identity. *)
Theorem conformant_read_ok_gen fs file v :
  codec_id -> codec_wf -> wf_bytes file ->
  check_file decompress file = inr v -> fv_fields v = fs ->
  NoDup (map c_path (columns fs)) -> cols_depth_ok (columns fs) ->
  read_all decompress fs file =
  {| o_open_ok := true; o_rows := Z.of_N (sumN (map rv_rows (fv_rgs v)));
     o_nexts := sumN (map rv_rows (fv_rgs v)); o_err := false; o_panic := false;
     o_recs := view_records v |}.
Proof.
  intros Hid Hwfd Hwf Hchk Hfs Hnd Hdepth.
  destruct (check_file_inv file v Hchk) as (Hn12 & Hflen & Hdec & Hrgs & Hrows). cbv zeta in *.
  set (n := nlen file) in *. set (flen := le_dec (slice (n - 8) 4 file)) in *. set (fstart := n - 8 - flen) in *.
  rewrite Hfs in Hrgs. set (fm := fv_meta v) in *.
  destruct (check_row_groups_items file fstart fs _ _ _ _ Hid Hwfd Hwf Hnd Hdepth Hrgs)
    as (items & Hmap & Hrecs & Hb & Hle & Hok & Hchks & Hsum).
  assert (Hfc : footer_checks fs fm).
  { unfold footer_checks. split; apply forallb_forall; intros rg Hin;
      rewrite Forall_forall in Hchks; destruct (Hchks rg Hin) as [H1 H2]; assumption. }
  unfold read_all, read_all_src.
  destruct (open_footer_conf fs fm file (mk_src file [] None) Hn12 Hflen Hdec Hfc eq_refl eq_refl)
    as (s1 & Hopen & Hfail1 & Hfile1 & Hpos1).
  rewrite Hopen. cbv zeta.
  assert (Hrem1 : rem s1 = rbytes items ++ skipn (N.to_nat (fstart - 4)) (skipn 4 file)).
  { unfold rem. rewrite Hfile1, Hpos1, Hb, slice_eq. change (N.to_nat 4) with 4%nat. symmetry. apply firstn_skipn. }
  assert (Hrr : rrecs items = view_records v).
  { unfold rrecs, view_records. rewrite Hrecs. symmetry. apply flat_map_concat_map. }
  assert (Hnr : fm_num_rows fm = Z.of_nat (length (rrecs items))) by (rewrite Hrows; lia).
  rewrite <- Hmap, Hnr. rewrite <- Hsum, <- Hrr.
  replace (Z.of_N (N.of_nat (length (rrecs items)))) with (Z.of_nat (length (rrecs items))) by lia.
  destruct items as [|x items].
  - cbn [map rrecs concat length]. cbn [Z.of_nat Z.to_nat]. rewrite (iterate_end decompress) by lia. reflexivity.
  - inversion Hok as [|x' items' (Hnrx & Hrd) Hok']; subst x' items'.
    cbn [map]. rewrite rbytes_cons, <- app_assoc in Hrem1.
    destruct (Hrd s1 _ Hfail1 Hrem1) as (s2 & Hrd2 & Hadv2). rewrite Hrd2.
    rewrite rrecs_cons, app_length.
    destruct (iterate_prefix decompress fs (Z.of_nat (length (ri_recs x) + length (rrecs items))) items (ri_recs x) 1
                0%Z 0%Z (rg_num_rows (ri_rg x)) [] 0 [] s2 _ Hok'
                (adv_fail _ _ _ Hadv2) (rem_adv_app _ _ _ _ Hrem1 Hadv2))
      as (s' & rc & rn & cursor' & nexts' & Hrun & Hc & Hn & Hrc & _ & _); [lia | lia |].
    rewrite app_nil_r in Hrun.
    replace (S (Z.to_nat (Z.of_nat (length (ri_recs x) + length (rrecs items)))))
      with (length (ri_recs x) + length (rrecs items) + 1)%nat by lia.
    rewrite Hrun, (iterate_end decompress) by lia. unfold mk_outcome. cbn [app]. f_equal. lia.
Qed.

End WithCodec.

(** C04, strong form, with the shape conditions of [ForeignProofs.fshape_ok] *)
Theorem conformant_read_ok decompress fs file v :
  check_file decompress file = inr v ->
  fv_fields v = fs ->
  fshape_ok fs ->
  (forall x, decompress CODEC_UNCOMPRESSED x = Some x) ->
  (forall c x y, wf_bytes x -> decompress c x = Some y -> wf_bytes y) ->
  wf_bytes file ->
  read_all decompress fs file =
  {| o_open_ok := true; o_rows := Z.of_N (sumN (map rv_rows (fv_rgs v)));
     o_nexts := sumN (map rv_rows (fv_rgs v)); o_err := false; o_panic := false;
     o_recs := view_records v |}.
Proof.
  intros Hchk Hfs (_ & Hnd & Hdepth) Hid Hwfd Hwf.
  exact (conformant_read_ok_gen decompress fs file v Hid Hwfd Hwf Hchk Hfs Hnd Hdepth).
Qed.

Print Assumptions check_page_good.
Print Assumptions conformant_read_ok_gen.
Print Assumptions conformant_read_ok.

(** ** The hypotheses are satisfiable, also by files with empty row groups *)
From PQ Require Import Writer Foreign.

Module ConformantExample.
Import Example ForeignExample.

Definition expected (v : file_view) : outcome :=
  {| o_open_ok := true; o_rows := Z.of_N (sumN (map rv_rows (fv_rgs v)));
     o_nexts := sumN (map rv_rows (fv_rgs v)); o_err := false; o_panic := false; o_recs := view_records v |}.

Definition hyps_okb (fs : list field) (file : bytes) : bool :=
  match check_file did file with
  | inr v => wf_bytesb file && fshape_okb fs
  | inl _ => false
  end.

Lemma did_id : forall x, did CODEC_UNCOMPRESSED x = Some x.
Proof. reflexivity. Qed.

Lemma did_wf : forall c x y, wf_bytes x -> did c x = Some y -> wf_bytes y.
Proof. intros c x y Hx H. injection H as <-. exact Hx. Qed.

(** the theorem applied to a file, its side conditions checked by computation *)
Lemma instance_of fs file v :
  check_file did file = inr v -> fv_fields v = fs -> hyps_okb fs file = true ->
  read_all did fs file = expected v.
Proof.
  intros Hchk Hfs Hok. unfold hyps_okb in Hok. rewrite Hchk in Hok.
  apply andb_prop in Hok. destruct Hok as [Hwf Hshape].
  apply (conformant_read_ok did fs file v Hchk Hfs (fshape_okb_sound fs Hshape)).
  - exact did_id.
  - exact did_wf.
  - apply wf_bytesb_spec. exact Hwf.
Qed.

(** a file of the foreign writer (both run kinds, padded level runs, optional
    header fields) and a file of the library's writer *)
Example foreign_instance :
  exists v, check_file did (foreign_file cid fs0 fc0 bs1) = inr v /\
            read_all did fs0 (foreign_file cid fs0 fc0 bs1) = expected v.
Proof.
  destruct (check_file did (foreign_file cid fs0 fc0 bs1)) as [e|v] eqn:E; [vm_compute in E; discriminate E|].
  exists v. split; [reflexivity|].
  assert (Hv := E). vm_compute in Hv. injection Hv as Hv.
  apply instance_of; [exact E | rewrite <- Hv; vm_compute; reflexivity | vm_compute; reflexivity].
Qed.

Example written_instance :
  exists v, check_file did (file_of_batches cid cfg0 bs0) = inr v /\
            read_all did fs0 (file_of_batches cid cfg0 bs0) = expected v.
Proof.
  destruct (check_file did (file_of_batches cid cfg0 bs0)) as [e|v] eqn:E; [vm_compute in E; discriminate E|].
  exists v. split; [reflexivity|].
  assert (Hv := E). vm_compute in Hv. injection Hv as Hv.
  apply instance_of; [exact E | rewrite <- Hv; vm_compute; reflexivity | vm_compute; reflexivity].
Qed.

(** conformant files with empty row groups (in the middle; first, twice in a
    row and last): the loop of Next skips them and every record is read back.
    Each statement once as an instance of the theorem, once by computation. *)
Example empty_row_groups_instance :
  let file := file_of_batches cid cfg0 [[r1]; []; [r2]] in
  exists v, check_file did file = inr v /\ fv_fields v = fs0 /\ map rv_rows (fv_rgs v) = [1; 0; 1] /\
            view_records v = [r1; r2] /\ read_all did fs0 file = expected v.
Proof.
  cbv zeta. destruct (check_file did (file_of_batches cid cfg0 [[r1]; []; [r2]])) as [e|v] eqn:E;
    [vm_compute in E; discriminate E|].
  exists v. split; [reflexivity|].
  assert (Hv := E). vm_compute in Hv. injection Hv as Hv.
  split; [rewrite <- Hv; vm_compute; reflexivity|].
  split; [rewrite <- Hv; vm_compute; reflexivity|].
  split; [rewrite <- Hv; vm_compute; reflexivity|].
  apply instance_of; [exact E | rewrite <- Hv; vm_compute; reflexivity | vm_compute; reflexivity].
Qed.

Example empty_row_groups_read :
  let file := file_of_batches cid cfg0 [[r1]; []; [r2]] in
  read_all did fs0 file =
  {| o_open_ok := true; o_rows := 2; o_nexts := 2; o_err := false; o_panic := false; o_recs := [r1; r2] |}.
Proof. vm_compute. reflexivity. Qed.

Example empty_row_groups_everywhere :
  let file := file_of_batches cid cfg0 [[]; [r1]; []; []; [r2]; []] in
  exists v, check_file did file = inr v /\ map rv_rows (fv_rgs v) = [0; 1; 0; 0; 1; 0] /\
            read_all did fs0 file = expected v /\ o_recs (read_all did fs0 file) = [r1; r2].
Proof.
  cbv zeta. destruct (check_file did (file_of_batches cid cfg0 [[]; [r1]; []; []; [r2]; []])) as [e|v] eqn:E;
    [vm_compute in E; discriminate E|].
  exists v. split; [reflexivity|].
  assert (Hv := E). vm_compute in Hv. injection Hv as Hv.
  split; [rewrite <- Hv; vm_compute; reflexivity|].
  split; [|vm_compute; reflexivity].
  apply instance_of; [exact E | rewrite <- Hv; vm_compute; reflexivity | vm_compute; reflexivity].
Qed.

End ConformantExample.

Print Assumptions ConformantExample.foreign_instance.
Print Assumptions ConformantExample.empty_row_groups_instance.
Print Assumptions ConformantExample.empty_row_groups_everywhere.
