(** * WriterProofs: facts about the model of the generated ParquetWriter
    ([Writer.v]).

    A. Failing sink (property C09): [run_fault].
    B. Histories (property C06): the file is a function of the non-empty
       batches only; empty Writes are inert; records pending at Close are
       dropped; the footer has one row group per non-empty batch with the
       batch's row count.
    C. Offsets (property C02): every column chunk's [file_offset] /
       [data_page_offset] is the byte position at which its first page header
       starts in the file, and [total_compressed_size] is the number of bytes
       its pages occupy. *)
From Coq Require Import List NArith ZArith Lia Bool Arith PeanoNat.
From Coq Require Import ZifyN ZifyNat ZifyBool.
From PQ Require Import Bytes Schema Dremel MetaTypes Meta Writer.
Import ListNotations.
Local Open Scope nat_scope.

(** ** A. Failing sink *)

Lemma run_fault_cons_none ws rest :
  run_fault (ws :: rest) None =
  (false :: fst (run_fault rest None), ws ++ snd (run_fault rest None)).
Proof. cbn [run_fault]. destruct (run_fault rest None) as [fl out]. reflexivity. Qed.

Lemma run_fault_cons_lt ws rest j :
  j < length ws -> run_fault (ws :: rest) (Some j) = ([true], firstn j ws).
Proof. intros Hj. cbn [run_fault]. apply Nat.ltb_lt in Hj. rewrite Hj. reflexivity. Qed.

Lemma run_fault_cons_ge ws rest j :
  length ws <= j ->
  run_fault (ws :: rest) (Some j) =
  (false :: fst (run_fault rest (Some (j - length ws))),
   ws ++ snd (run_fault rest (Some (j - length ws)))).
Proof.
  intros Hj. cbn [run_fault]. apply Nat.ltb_ge in Hj. rewrite Hj.
  destruct (run_fault rest (Some (j - length ws))) as [fl out]. reflexivity.
Qed.

(** No fault: every call succeeds and everything reaches the sink. *)
Theorem run_fault_none calls :
  run_fault calls None = (map (fun _ => false) calls, concat calls).
Proof.
  induction calls as [|ws rest IH]; [reflexivity|].
  rewrite run_fault_cons_none, IH. reflexivity.
Qed.

(** The sink fails a write that the run would have made: exactly one call
    reports an error; it is the call during which the k-th write happens; all
    earlier calls succeeded; the run stops there; the sink holds exactly the
    first [k] writes of the fault-free run. *)
Theorem run_fault_hit calls k :
  k < length (concat calls) ->
  exists i, i < length calls /\
    fst (run_fault calls (Some k)) = repeat false i ++ [true] /\
    (length (concat (firstn i calls)) <= k < length (concat (firstn (S i) calls))) /\
    snd (run_fault calls (Some k)) = firstn k (concat calls).
Proof.
  revert k. induction calls as [|ws rest IH]; intros k Hk.
  - cbn [concat length] in Hk. lia.
  - cbn [concat] in Hk. rewrite app_length in Hk.
    destruct (Nat.lt_ge_cases k (length ws)) as [Hlt|Hge].
    + exists 0. rewrite run_fault_cons_lt by exact Hlt.
      cbn [fst snd repeat app firstn concat length].
      rewrite app_nil_r.
      split; [lia|]. split; [reflexivity|]. split; [lia|].
      rewrite firstn_app. replace (k - length ws) with 0 by lia.
      rewrite firstn_O, app_nil_r. reflexivity.
    + destruct (IH (k - length ws)) as (i & Hi & Hf & Hr & Hs); [lia|].
      exists (S i). rewrite run_fault_cons_ge by exact Hge.
      cbn [fst snd]. rewrite Hf, Hs.
      split; [cbn [length]; lia|]. split; [reflexivity|]. split.
      * change (firstn (S i) (ws :: rest)) with (ws :: firstn i rest).
        change (firstn (S (S i)) (ws :: rest)) with (ws :: firstn (S i) rest).
        cbn [concat]. rewrite !app_length. lia.
      * cbn [concat]. rewrite firstn_app.
        rewrite (firstn_all2 ws) by lia. reflexivity.
Qed.

(** The fault position is never reached: same as no fault. *)
Theorem run_fault_beyond calls k :
  length (concat calls) <= k -> run_fault calls (Some k) = run_fault calls None.
Proof.
  revert k. induction calls as [|ws rest IH]; intros k Hk; [reflexivity|].
  cbn [concat] in Hk. rewrite app_length in Hk.
  rewrite run_fault_cons_ge by lia. rewrite run_fault_cons_none.
  rewrite IH by lia. reflexivity.
Qed.

(** Corollary: exactly one [true], and it is the last flag. *)
Corollary run_fault_hit_last calls k :
  k < length (concat calls) ->
  exists i, fst (run_fault calls (Some k)) = repeat false i ++ [true] /\
            length (fst (run_fault calls (Some k))) = S i /\ i < length calls.
Proof.
  intros Hk. destruct (run_fault_hit calls k Hk) as (i & Hi & Hf & _ & _).
  exists i. rewrite Hf. rewrite app_length, repeat_length. cbn [length].
  split; [reflexivity|]. split; [lia|exact Hi].
Qed.

(** A sink fault during any run of the writer is reported by some API call. *)
Corollary sink_fault_reported compress cfg h k :
  k < length (concat (run_history compress cfg h)) ->
  In true (fst (run_fault (run_history compress cfg h) (Some k))).
Proof.
  intros Hk. destruct (run_fault_hit _ k Hk) as (i & _ & Hf & _ & _).
  rewrite Hf. apply in_or_app. right. left. reflexivity.
Qed.

(** ** B. Histories *)

Definition nonempty (b : list value) : bool := negb (Nat.eqb (length b) 0).

Lemma nonempty_batches_eq h : nonempty_batches h = filter nonempty (batches_of h []).
Proof. reflexivity. Qed.

Lemma filter_nonempty_nil l : filter nonempty ([] :: l) = filter nonempty l.
Proof. reflexivity. Qed.

Lemma filter_nonempty_cons x p l :
  filter nonempty ((x :: p) :: l) = (x :: p) :: filter nonempty l.
Proof. reflexivity. Qed.

Lemma concat_concat_map {A B} (f : A -> list (list B)) (l : list A) :
  concat (concat (map f l)) = concat (map (fun x => concat (f x)) l).
Proof.
  induction l as [|x l IH]; [reflexivity|].
  cbn [map concat]. rewrite concat_app, IH. reflexivity.
Qed.

Section Histories.
Variable compress : Z -> bytes -> bytes.
Variable cfg : config.

Lemma run_ops_add r h pending rgs :
  run_ops compress cfg (OpAdd r :: h) pending rgs =
  ([] :: fst (run_ops compress cfg h (pending ++ [r]) rgs),
   snd (run_ops compress cfg h (pending ++ [r]) rgs)).
Proof.
  cbn [run_ops]. destruct (run_ops compress cfg h (pending ++ [r]) rgs) as [ws rgs'].
  reflexivity.
Qed.

Lemma run_ops_write_nil h rgs :
  run_ops compress cfg (OpWrite :: h) [] rgs =
  ([] :: fst (run_ops compress cfg h [] rgs), snd (run_ops compress cfg h [] rgs)).
Proof.
  cbn [run_ops]. destruct (run_ops compress cfg h [] rgs) as [ws rgs']. reflexivity.
Qed.

Lemma run_ops_write_cons h x p rgs :
  run_ops compress cfg (OpWrite :: h) (x :: p) rgs =
  (fst (write_batch compress cfg (x :: p))
     :: fst (run_ops compress cfg h [] (rgs ++ [snd (write_batch compress cfg (x :: p))])),
   snd (run_ops compress cfg h [] (rgs ++ [snd (write_batch compress cfg (x :: p))]))).
Proof.
  cbn [run_ops]. destruct (write_batch compress cfg (x :: p)) as [w rg]. cbn [fst snd].
  destruct (run_ops compress cfg h [] (rgs ++ [rg])) as [ws rgs']. reflexivity.
Qed.

(** 5. What [run_ops] does: one entry per API call; the writes are those of the
    non-empty batches in order; the accounting gains one row group per
    non-empty batch. *)
Lemma run_ops_spec h : forall pending rgs,
  snd (run_ops compress cfg h pending rgs) =
    rgs ++ map (fun b => snd (write_batch compress cfg b)) (filter nonempty (batches_of h pending)) /\
  concat (fst (run_ops compress cfg h pending rgs)) =
    concat (map (fun b => fst (write_batch compress cfg b)) (filter nonempty (batches_of h pending))) /\
  length (fst (run_ops compress cfg h pending rgs)) = length h.
Proof.
  induction h as [|o h' IH]; intros pending rgs.
  - cbn [run_ops batches_of filter map fst snd concat length]. rewrite app_nil_r. auto.
  - destruct o as [r|].
    + rewrite run_ops_add. cbn [fst snd batches_of concat length app].
      destruct (IH (pending ++ [r]) rgs) as (H1 & H2 & H3). rewrite H1, H2, H3. auto.
    + destruct pending as [|x p].
      * rewrite run_ops_write_nil. cbn [fst snd batches_of concat length app].
        rewrite filter_nonempty_nil.
        destruct (IH [] rgs) as (H1 & H2 & H3). rewrite H1, H2, H3. auto.
      * rewrite run_ops_write_cons. cbn [fst snd batches_of concat length].
        rewrite filter_nonempty_cons. cbn [map concat].
        destruct (IH [] (rgs ++ [snd (write_batch compress cfg (x :: p))])) as (H1 & H2 & H3).
        rewrite H1, H2, H3. rewrite <- app_assoc. cbn [app]. auto.
Qed.

Lemma run_ops_snd h pending rgs :
  snd (run_ops compress cfg h pending rgs) =
  rgs ++ map (fun b => snd (write_batch compress cfg b)) (filter nonempty (batches_of h pending)).
Proof. apply run_ops_spec. Qed.

Lemma run_ops_fst_concat h pending rgs :
  concat (fst (run_ops compress cfg h pending rgs)) =
  concat (map (fun b => fst (write_batch compress cfg b)) (filter nonempty (batches_of h pending))).
Proof. apply run_ops_spec. Qed.

Lemma run_ops_fst_length h pending rgs :
  length (fst (run_ops compress cfg h pending rgs)) = length h.
Proof. apply run_ops_spec. Qed.

(** one entry per API call: NewParquetWriter, each op, Close *)
Lemma run_history_length h : length (run_history compress cfg h) = S (S (length h)).
Proof.
  unfold run_history. pose proof (run_ops_fst_length h [] []) as Hl.
  destruct (run_ops compress cfg h [] []) as [ws rgs]. cbn [fst] in Hl.
  cbn [length]. rewrite app_length. cbn [length]. lia.
Qed.

(** 6. The file depends on the history only through its non-empty batches. *)
Theorem file_bytes_batches h :
  file_bytes compress cfg h = file_of_batches compress cfg (nonempty_batches h).
Proof.
  unfold file_bytes, run_history, file_of_batches. rewrite nonempty_batches_eq.
  pose proof (run_ops_snd h [] []) as H1. pose proof (run_ops_fst_concat h [] []) as H2.
  destruct (run_ops compress cfg h [] []) as [ws rgs]. cbn [fst snd app] in H1, H2.
  subst rgs. rewrite !map_map.
  cbn [concat]. rewrite !concat_app. cbn [concat]. rewrite !app_nil_r.
  rewrite H2, (concat_concat_map (fun b => fst (write_batch compress cfg b))). reflexivity.
Qed.

(** 7. A Write with nothing pending changes nothing. *)
Lemma nonempty_batches_leading_write h : nonempty_batches (OpWrite :: h) = nonempty_batches h.
Proof. reflexivity. Qed.

Lemma filter_batches_double_write h1 h2 : forall p,
  filter nonempty (batches_of (h1 ++ OpWrite :: OpWrite :: h2) p) =
  filter nonempty (batches_of (h1 ++ OpWrite :: h2) p).
Proof.
  induction h1 as [|o h1' IH]; intros p.
  - cbn [app batches_of]. destruct p as [|x p'].
    + rewrite !filter_nonempty_nil. reflexivity.
    + rewrite !filter_nonempty_cons, filter_nonempty_nil. reflexivity.
  - destruct o as [r|]; cbn [app batches_of].
    + apply IH.
    + destruct p as [|x p'].
      * rewrite !filter_nonempty_nil. apply IH.
      * rewrite !filter_nonempty_cons. f_equal. apply IH.
Qed.

Lemma nonempty_batches_double_write h1 h2 :
  nonempty_batches (h1 ++ OpWrite :: OpWrite :: h2) = nonempty_batches (h1 ++ OpWrite :: h2).
Proof. rewrite !nonempty_batches_eq. apply filter_batches_double_write. Qed.

Theorem empty_write_inert h1 h2 :
  file_bytes compress cfg (h1 ++ OpWrite :: OpWrite :: h2) =
  file_bytes compress cfg (h1 ++ OpWrite :: h2).
Proof. rewrite !file_bytes_batches, nonempty_batches_double_write. reflexivity. Qed.

Theorem leading_write_inert h :
  file_bytes compress cfg (OpWrite :: h) = file_bytes compress cfg h.
Proof. rewrite !file_bytes_batches, nonempty_batches_leading_write. reflexivity. Qed.

(** 8. Records added after the last Write are dropped at Close.  This holds for
    every history and every pending list (no side condition is needed: the
    records pending at the end of [h] are dropped as well). *)
Lemma batches_of_trailing_adds h rs : forall p,
  batches_of (h ++ map OpAdd rs) p = batches_of h p.
Proof.
  induction h as [|o h' IH]; intros p.
  - cbn [app batches_of]. revert p. induction rs as [|r rs' IHr]; intros p; [reflexivity|].
    cbn [map batches_of]. apply IHr.
  - destruct o as [r|]; cbn [app batches_of].
    + apply IH.
    + f_equal. apply IH.
Qed.

Theorem pending_at_close_dropped h rs :
  file_bytes compress cfg (h ++ map OpAdd rs) = file_bytes compress cfg h.
Proof.
  rewrite !file_bytes_batches. unfold nonempty_batches.
  rewrite batches_of_trailing_adds. reflexivity.
Qed.

(** the instance asked for: nothing pending at the end of [h] *)
Corollary pending_at_close_dropped_after_write h rs :
  file_bytes compress cfg ((h ++ [OpWrite]) ++ map OpAdd rs) = file_bytes compress cfg (h ++ [OpWrite]).
Proof. apply pending_at_close_dropped. Qed.

(** a history that never calls Write produces the empty file (header + footer) *)
Corollary only_adds_empty_file rs :
  file_bytes compress cfg (map OpAdd rs) = file_bytes compress cfg [].
Proof. apply (pending_at_close_dropped [] rs). Qed.

End Histories.

(** ** 9. Footer truthfulness with respect to the batches *)

Lemma row_groups_meta_length codec rgs : forall pos,
  length (row_groups_meta codec pos rgs) = length rgs.
Proof.
  induction rgs as [|rg r IH]; intros pos; [reflexivity|].
  cbn [row_groups_meta]. destruct (chunks_meta codec pos (ra_chunks rg)) as [ccs pos'].
  cbn [length]. rewrite IH. reflexivity.
Qed.

Lemma row_groups_meta_rows codec rgs : forall pos,
  map rg_num_rows (row_groups_meta codec pos rgs) = map (fun rg => Z.of_N (ra_rows rg)) rgs.
Proof.
  induction rgs as [|rg r IH]; intros pos; [reflexivity|].
  cbn [row_groups_meta]. destruct (chunks_meta codec pos (ra_chunks rg)) as [ccs pos'].
  cbn [map rg_num_rows]. rewrite IH. reflexivity.
Qed.

Lemma write_batch_rows compress cfg b : ra_rows (snd (write_batch compress cfg b)) = nlen b.
Proof. reflexivity. Qed.

Lemma sumN_nlen_concat {A} (bs : list (list A)) : sumN (map (@nlen A) bs) = nlen (concat bs).
Proof.
  induction bs as [|b bs' IH]; [reflexivity|].
  cbn [map sumN concat]. rewrite nlen_app, IH. reflexivity.
Qed.

Section Footer.
Variable compress : Z -> bytes -> bytes.
Variable cfg : config.
Variable bs : list (list value).
Let rgs := map (fun b => snd (write_batch compress cfg b)) bs.

Theorem footer_row_groups_length :
  length (fm_row_groups (footer_meta cfg rgs)) = length bs.
Proof.
  unfold footer_meta. cbn [fm_row_groups]. rewrite row_groups_meta_length.
  unfold rgs. apply map_length.
Qed.

Theorem footer_row_groups_rows :
  map rg_num_rows (fm_row_groups (footer_meta cfg rgs)) = map (fun b => Z.of_nat (length b)) bs.
Proof.
  unfold footer_meta. cbn [fm_row_groups]. rewrite row_groups_meta_rows.
  unfold rgs. rewrite map_map. apply map_ext. intros b.
  rewrite write_batch_rows. unfold nlen. apply nat_N_Z.
Qed.

Theorem footer_num_rows :
  fm_num_rows (footer_meta cfg rgs) = Z.of_nat (length (concat bs)).
Proof.
  unfold footer_meta. cbn [fm_num_rows]. unfold rgs. rewrite map_map.
  rewrite (map_ext _ (@nlen value)) by (intros b; apply write_batch_rows).
  rewrite sumN_nlen_concat. unfold nlen. apply nat_N_Z.
Qed.

(** the three together *)
Theorem footer_truthful :
  length (fm_row_groups (footer_meta cfg rgs)) = length bs /\
  map rg_num_rows (fm_row_groups (footer_meta cfg rgs)) = map (fun b => Z.of_nat (length b)) bs /\
  fm_num_rows (footer_meta cfg rgs) = Z.of_nat (length (concat bs)).
Proof.
  split; [apply footer_row_groups_length|]. split; [apply footer_row_groups_rows|apply footer_num_rows].
Qed.

End Footer.

(** For a history: one row group per non-empty batch, each with a positive row
    count, and the total is the number of records written (pending ones excluded). *)
Lemma nonempty_batches_nonempty h : Forall (fun b => 0 < length b) (nonempty_batches h).
Proof.
  unfold nonempty_batches. apply Forall_forall. intros b Hb.
  apply filter_In in Hb. destruct Hb as [_ Hb].
  destruct b as [|x b']; [discriminate Hb | cbn [length]; lia].
Qed.

Theorem footer_truthful_history compress cfg h :
  let fm := footer_meta cfg (snd (run_ops compress cfg h [] [])) in
  map rg_num_rows (fm_row_groups fm) = map (fun b => Z.of_nat (length b)) (nonempty_batches h) /\
  Forall (fun n => (0 < n)%Z) (map rg_num_rows (fm_row_groups fm)) /\
  fm_num_rows fm = Z.of_nat (length (concat (nonempty_batches h))).
Proof.
  cbv zeta. rewrite run_ops_snd. cbn [app]. rewrite <- nonempty_batches_eq.
  rewrite footer_row_groups_rows, footer_num_rows.
  split; [reflexivity|]. split; [|reflexivity].
  apply Forall_forall. intros n Hn. apply in_map_iff in Hn. destruct Hn as (b & Hb & Hin).
  pose proof (nonempty_batches_nonempty h) as Hne. rewrite Forall_forall in Hne.
  specialize (Hne b Hin). lia.
Qed.

(** ** 10. Offsets (property C02) *)

Local Open Scope N_scope.

(** number of bytes one Write() call sends to the sink *)
Definition batch_len (w : list bytes * rg_acc) : N := nlen (concat (fst w)).

(** the sink writes of the pages of one column chunk, and their bytes *)
Definition page_writes (pages : list page) : list bytes :=
  flat_map (fun p => [pg_header_bytes p; pg_body p]) pages.
Definition chunk_bytes (pages : list page) : bytes := concat (page_writes pages).

Lemma chunk_bytes_cons p ps :
  chunk_bytes (p :: ps) = pg_header_bytes p ++ pg_body p ++ chunk_bytes ps.
Proof. unfold chunk_bytes, page_writes. cbn [flat_map app concat]. reflexivity. Qed.

(** total_compressed_size of a chunk = the bytes its pages occupy *)
Lemma ca_compressed_pages c pages :
  ca_compressed (chunk_of_pages c pages) = nlen (chunk_bytes pages).
Proof.
  unfold chunk_of_pages. cbn [ca_compressed].
  induction pages as [|p ps IH]; [reflexivity|].
  rewrite chunk_bytes_cons, !nlen_app. cbn [map sumN]. rewrite IH. lia.
Qed.

Lemma chunks_meta_cons codec pos ca r :
  chunks_meta codec pos (ca :: r) =
  (chunk_meta codec pos ca :: fst (chunks_meta codec (pos + ca_compressed ca) r),
   snd (chunks_meta codec (pos + ca_compressed ca) r)).
Proof.
  cbn [chunks_meta]. destruct (chunks_meta codec (pos + ca_compressed ca) r) as [rest pos'].
  reflexivity.
Qed.

(** the position after a row group's chunks *)
Lemma chunks_meta_snd codec cas : forall pos,
  snd (chunks_meta codec pos cas) = pos + sumN (map ca_compressed cas).
Proof.
  induction cas as [|ca r IH]; intros pos.
  - cbn [chunks_meta snd map sumN]. lia.
  - rewrite chunks_meta_cons. cbn [snd map sumN]. rewrite IH. lia.
Qed.

Lemma chunks_meta_length codec cas : forall pos,
  length (fst (chunks_meta codec pos cas)) = length cas.
Proof.
  induction cas as [|ca r IH]; intros pos; [reflexivity|].
  rewrite chunks_meta_cons. cbn [fst length]. rewrite IH. reflexivity.
Qed.

(** the j-th chunk of a row group starts after the chunks before it *)
Lemma chunks_meta_nth codec cas : forall pos j ca,
  nth_error cas j = Some ca ->
  nth_error (fst (chunks_meta codec pos cas)) j =
  Some (chunk_meta codec (pos + sumN (map ca_compressed (firstn j cas))) ca).
Proof.
  induction cas as [|ca0 r IH]; intros pos j ca Hj.
  - destruct j; discriminate Hj.
  - rewrite chunks_meta_cons. cbn [fst]. destruct j as [|j'].
    + cbn [nth_error] in Hj. injection Hj as Hj. subst ca0.
      cbn [nth_error firstn map sumN]. do 2 f_equal. lia.
    + cbn [nth_error] in Hj. cbn [nth_error firstn map sumN].
      rewrite (IH _ _ _ Hj). do 2 f_equal. lia.
Qed.

(** bytes a row group's chunks occupy *)
Definition rg_bytes (rg : rg_acc) : N := sumN (map ca_compressed (ra_chunks rg)).

Lemma row_groups_meta_cons codec pos rg r :
  row_groups_meta codec pos (rg :: r) =
  {| rg_columns := fst (chunks_meta codec pos (ra_chunks rg));
     rg_total_byte_size := Z.of_N (rg_bytes rg);
     rg_num_rows := Z.of_N (ra_rows rg) |} :: row_groups_meta codec (pos + rg_bytes rg) r.
Proof.
  cbn [row_groups_meta]. pose proof (chunks_meta_snd codec (ra_chunks rg) pos) as Hs.
  destruct (chunks_meta codec pos (ra_chunks rg)) as [ccs pos']. cbn [fst snd] in *.
  subst pos'. reflexivity.
Qed.

(** the i-th row group starts after the row groups before it *)
Lemma row_groups_meta_nth codec rgs : forall pos i rg,
  nth_error rgs i = Some rg ->
  nth_error (row_groups_meta codec pos rgs) i =
  Some {| rg_columns := fst (chunks_meta codec (pos + sumN (map rg_bytes (firstn i rgs))) (ra_chunks rg));
          rg_total_byte_size := Z.of_N (rg_bytes rg);
          rg_num_rows := Z.of_N (ra_rows rg) |}.
Proof.
  induction rgs as [|rg0 r IH]; intros pos i rg Hi.
  - destruct i; discriminate Hi.
  - rewrite row_groups_meta_cons. destruct i as [|i'].
    + cbn [nth_error] in Hi. injection Hi as Hi. subst rg0.
      cbn [nth_error firstn map sumN]. rewrite N.add_0_r. reflexivity.
    + cbn [nth_error] in Hi. cbn [nth_error firstn map sumN].
      rewrite (IH _ _ _ Hi). rewrite N.add_assoc. reflexivity.
Qed.

(** *** The writes of one batch, column by column *)

Lemma index_from_nth {A} (l : list A) : forall s j x,
  nth_error l j = Some x -> nth_error (index_from s l) j = Some ((s + j)%nat, x).
Proof.
  induction l as [|y l' IH]; intros s j x Hj.
  - destruct j; discriminate Hj.
  - destruct j as [|j']; cbn [index_from nth_error] in *.
    + injection Hj as Hj. subst y. rewrite Nat.add_0_r. reflexivity.
    + rewrite (IH (S s) j' x Hj). do 2 f_equal. lia.
Qed.

Section Offsets.
Variable compress : Z -> bytes -> bytes.
Variable cfg : config.

(** per column of the shape: the column and its pages for the batch *)
Definition per_col (b : list value) : list (col * list page) :=
  map (fun ic => (snd ic, column_pages compress cfg (fst ic) (snd ic) b))
      (index_from 0 (columns (cfg_fields cfg))).

Lemma write_batch_fst b :
  fst (write_batch compress cfg b) = flat_map (fun cp => page_writes (snd cp)) (per_col b).
Proof.
  unfold write_batch, per_col. cbn [fst].
  rewrite !flat_map_concat_map, !map_map. f_equal. apply map_ext.
  intros [i c]. reflexivity.
Qed.

Lemma write_batch_chunks b :
  ra_chunks (snd (write_batch compress cfg b)) =
  map (fun cp => chunk_of_pages (fst cp) (snd cp)) (per_col b).
Proof.
  unfold write_batch, per_col. cbn [snd ra_chunks].
  rewrite !map_map. apply map_ext. intros [i c]. reflexivity.
Qed.

Lemma per_col_nth b j c :
  nth_error (columns (cfg_fields cfg)) j = Some c ->
  nth_error (per_col b) j = Some (c, column_pages compress cfg j c b).
Proof.
  intros Hj. unfold per_col. rewrite nth_error_map.
  rewrite (index_from_nth _ 0%nat j c Hj). reflexivity.
Qed.

Lemma concat_page_writes (pcs : list (col * list page)) :
  concat (flat_map (fun cp => page_writes (snd cp)) pcs) =
  concat (map (fun cp => chunk_bytes (snd cp)) pcs).
Proof.
  rewrite flat_map_concat_map.
  rewrite (concat_concat_map (fun cp : col * list page => page_writes (snd cp))). reflexivity.
Qed.

Lemma nlen_col_bytes (pcs : list (col * list page)) :
  nlen (concat (flat_map (fun cp => page_writes (snd cp)) pcs)) =
  sumN (map ca_compressed (map (fun cp => chunk_of_pages (fst cp) (snd cp)) pcs)).
Proof.
  rewrite concat_page_writes, <- sumN_nlen_concat, !map_map. f_equal.
  apply map_ext. intros cp. rewrite ca_compressed_pages. reflexivity.
Qed.

(** what a batch sends to the sink is what its accounting says *)
Lemma batch_len_rg_bytes b :
  batch_len (write_batch compress cfg b) = rg_bytes (snd (write_batch compress cfg b)).
Proof.
  unfold batch_len, rg_bytes. rewrite write_batch_fst, write_batch_chunks.
  apply nlen_col_bytes.
Qed.

(** *** Actual positions, computed from the writes *)

(** file position at which the writes of batch [i] start *)
Definition batch_start (bs : list (list value)) (i : nat) : N :=
  4 + sumN (map batch_len (map (write_batch compress cfg) (firstn i bs))).

(** position, within the writes of batch [b], at which column [j]'s pages start *)
Definition col_start (b : list value) (j : nat) : N :=
  nlen (concat (flat_map (fun cp => page_writes (snd cp)) (firstn j (per_col b)))).

Lemma batch_writes_nlen (bs : list (list value)) :
  nlen (concat (map (fun x => concat (fst x)) (map (write_batch compress cfg) bs))) =
  sumN (map batch_len (map (write_batch compress cfg) bs)).
Proof.
  rewrite <- sumN_nlen_concat, !map_map. reflexivity.
Qed.

(** the file really has the chunk's pages at [batch_start + col_start] *)
Lemma file_split bs i j b c :
  nth_error bs i = Some b ->
  nth_error (columns (cfg_fields cfg)) j = Some c ->
  exists pre post,
    file_of_batches compress cfg bs =
      pre ++ chunk_bytes (column_pages compress cfg j c b) ++ post /\
    nlen pre = batch_start bs i + col_start b j.
Proof.
  intros Hi Hj.
  destruct (nth_error_split bs i Hi) as (bs1 & bs2 & Hbs & Hl1).
  pose proof (per_col_nth b j c Hj) as Hpc.
  destruct (nth_error_split _ j Hpc) as (pc1 & pc2 & Hpcs & Hl2).
  unfold batch_start, col_start. rewrite Hpcs. subst i j. rewrite Hbs, !firstn_app_exact.
  unfold file_of_batches.
  rewrite !map_app, concat_app. cbn [map concat].
  rewrite write_batch_fst, Hpcs, flat_map_app, concat_app. cbn [flat_map].
  rewrite concat_app. fold (chunk_bytes (column_pages compress cfg (length pc1) c b)).
  cbn [snd].
  eexists (magic ++ concat (map (fun x => concat (fst x)) (map (write_batch compress cfg) bs1))
                 ++ concat (flat_map (fun cp => page_writes (snd cp)) pc1)), _.
  split.
  - rewrite <- !app_assoc. reflexivity.
  - rewrite !nlen_app, batch_writes_nlen. change (nlen magic) with 4. lia.
Qed.

(** *** The footer's offsets *)

Lemma footer_chunk_nth bs i j b c :
  nth_error bs i = Some b ->
  nth_error (columns (cfg_fields cfg)) j = Some c ->
  let rgs := map (fun b => snd (write_batch compress cfg b)) bs in
  exists rg,
    nth_error (fm_row_groups (footer_meta cfg rgs)) i = Some rg /\
    rg_num_rows rg = Z.of_N (nlen b) /\
    rg_total_byte_size rg = Z.of_N (batch_len (write_batch compress cfg b)) /\
    nth_error (rg_columns rg) j =
      Some (chunk_meta (cfg_codec cfg) (batch_start bs i + col_start b j)
                       (chunk_of_pages c (column_pages compress cfg j c b))).
Proof.
  intros Hi Hj rgs.
  assert (Hrg : nth_error rgs i = Some (snd (write_batch compress cfg b))).
  { unfold rgs. rewrite nth_error_map, Hi. reflexivity. }
  unfold footer_meta. cbn [fm_row_groups].
  rewrite (row_groups_meta_nth _ _ _ _ _ Hrg).
  eexists. split; [reflexivity|]. cbn [rg_num_rows rg_total_byte_size rg_columns].
  split; [reflexivity|]. split; [rewrite batch_len_rg_bytes; reflexivity|].
  assert (Hca : nth_error (ra_chunks (snd (write_batch compress cfg b))) j =
                Some (chunk_of_pages c (column_pages compress cfg j c b))).
  { rewrite write_batch_chunks, nth_error_map, (per_col_nth b j c Hj). reflexivity. }
  rewrite (chunks_meta_nth _ _ _ _ _ Hca). do 2 f_equal.
  unfold batch_start, col_start, rgs.
  rewrite firstn_map, !map_map.
  rewrite (map_ext _ (fun x => batch_len (write_batch compress cfg x)))
    by (intros x; symmetry; apply batch_len_rg_bytes).
  rewrite write_batch_chunks, firstn_map, <- nlen_col_bytes. reflexivity.
Qed.

(** C02: in the file written for the batches [bs], the footer's entry for
    column [j] of row group [i] has [file_offset = data_page_offset =] the byte
    position at which that chunk's first page header starts — the file is
    [pre ++ (the chunk's pages: header, body, header, body, ...) ++ post] with
    [|pre|] that offset, which is 4 + the writes of batches 0..i-1 + the pages
    of columns 0..j-1 of batch i — and [total_compressed_size] is the number of
    bytes of those pages. *)
Theorem offsets_truthful bs i j b c :
  nth_error bs i = Some b ->
  nth_error (columns (cfg_fields cfg)) j = Some c ->
  let pages := column_pages compress cfg j c b in
  let fm := footer_meta cfg (map (fun b => snd (write_batch compress cfg b)) bs) in
  exists rg cc cm pre post,
    nth_error (fm_row_groups fm) i = Some rg /\
    nth_error (rg_columns rg) j = Some cc /\
    cc_meta cc = Some cm /\
    cm_path cm = c_path c /\
    file_of_batches compress cfg bs = pre ++ chunk_bytes pages ++ post /\
    cc_file_offset cc = Z.of_N (nlen pre) /\
    cm_data_page_offset cm = Z.of_N (nlen pre) /\
    nlen pre = batch_start bs i + col_start b j /\
    cm_total_compressed cm = Z.of_N (nlen (chunk_bytes pages)) /\
    rg_total_byte_size rg = Z.of_N (batch_len (write_batch compress cfg b)).
Proof.
  intros Hi Hj pages fm.
  destruct (footer_chunk_nth bs i j b c Hi Hj) as (rg & Hrg & _ & Hsz & Hcc).
  destruct (file_split bs i j b c Hi Hj) as (pre & post & Hfile & Hpre).
  exists rg. eexists. eexists. exists pre, post.
  split; [exact Hrg|]. split; [exact Hcc|].
  unfold chunk_meta. cbn [cc_meta cc_file_offset].
  split; [reflexivity|].
  cbn [cm_path cm_data_page_offset cm_total_compressed].
  rewrite ca_compressed_pages, Hpre.
  repeat (split; [first [reflexivity | exact Hfile | exact Hsz]|]).
  exact Hsz.
Qed.

(** the same for the file a history produces *)
Corollary offsets_truthful_history h i j b c :
  nth_error (nonempty_batches h) i = Some b ->
  nth_error (columns (cfg_fields cfg)) j = Some c ->
  let pages := column_pages compress cfg j c b in
  let fm := footer_meta cfg (snd (run_ops compress cfg h [] [])) in
  exists rg cc cm pre post,
    nth_error (fm_row_groups fm) i = Some rg /\
    nth_error (rg_columns rg) j = Some cc /\
    cc_meta cc = Some cm /\
    file_bytes compress cfg h = pre ++ chunk_bytes pages ++ post /\
    cc_file_offset cc = Z.of_N (nlen pre) /\
    cm_data_page_offset cm = Z.of_N (nlen pre) /\
    cm_total_compressed cm = Z.of_N (nlen (chunk_bytes pages)).
Proof.
  intros Hi Hj pages fm. unfold fm. rewrite run_ops_snd. cbn [app].
  rewrite <- nonempty_batches_eq, file_bytes_batches.
  destruct (offsets_truthful _ i j b c Hi Hj)
    as (rg & cc & cm & pre & post & H1 & H2 & H3 & _ & H5 & H6 & H7 & _ & H9 & _).
  exists rg, cc, cm, pre, post. auto 10.
Qed.

End Offsets.

(** ** Non-vacuity on a tiny configuration *)

Module Examples.
Definition idc : Z -> bytes -> bytes := fun _ b => b.
Definition cfg1 : config :=
  {| cfg_fields := [([65%N], Req, TLeaf PInt32)]; cfg_max := 2; cfg_codec := 0%Z |}.
Definition r : value := VGroup [VNum 7].
Definition h1 : list op := [OpWrite; OpAdd r; OpAdd r; OpAdd r; OpWrite; OpWrite; OpAdd r].

Example ex_batches : nonempty_batches h1 = [[r; r; r]].
Proof. vm_compute. reflexivity. Qed.

(** NewParquetWriter, 7 ops, Close; the data Write makes 4 sink writes (2 pages) *)
Example ex_calls : map (@length bytes) (run_history idc cfg1 h1) = [1; 0; 0; 0; 0; 4; 0; 0; 3]%nat.
Proof. vm_compute. reflexivity. Qed.

(** the sink fails its write number 3 (the second page header): the five calls
    before the data Write succeed, the Write reports the error, the sink holds
    the magic and the first page *)
Example ex_fault :
  fst (run_fault (run_history idc cfg1 h1) (Some 3%nat)) = [false; false; false; false; false; true] /\
  snd (run_fault (run_history idc cfg1 h1) (Some 3%nat)) = firstn 3 (concat (run_history idc cfg1 h1)) /\
  map (@length N) (snd (run_fault (run_history idc cfg1 h1) (Some 3%nat))) = [4; 31; 8]%nat.
Proof. vm_compute. auto. Qed.

Example ex_fault_hyp : (3 < length (concat (run_history idc cfg1 h1)))%nat.
Proof. vm_compute. lia. Qed.

Example ex_file : file_bytes idc cfg1 h1 = file_of_batches idc cfg1 [[r; r; r]].
Proof. vm_compute. reflexivity. Qed.

Example ex_footer :
  let fm := footer_meta cfg1 (snd (run_ops idc cfg1 h1 [] [])) in
  (map rg_num_rows (fm_row_groups fm), fm_num_rows fm) = ([3%Z], 3%Z).
Proof. vm_compute. reflexivity. Qed.

(** two batches: the second row group's chunk starts at 4 + 74 = 78, where the
    file indeed has its first page header *)
Definition h2 : list op := [OpAdd r; OpAdd r; OpAdd r; OpWrite; OpAdd r; OpWrite].

Example ex_offsets :
  let bs := nonempty_batches h2 in
  let fm := footer_meta cfg1 (map (fun b => snd (write_batch idc cfg1 b)) bs) in
  map (fun rg => map cc_file_offset (rg_columns rg)) (fm_row_groups fm) = [[4%Z]; [78%Z]] /\
  batch_start idc cfg1 bs 1 + col_start idc cfg1 [r] 0 = 78 /\
  let pages := column_pages idc cfg1 0 {| c_path := [[65]]; c_reps := [Req]; c_prim := PInt32 |} [r] in
  firstn (length (chunk_bytes pages)) (skipn 78 (file_bytes idc cfg1 h2)) = chunk_bytes pages /\
  nlen (chunk_bytes pages) = 35.
Proof. vm_compute. auto. Qed.
End Examples.

Print Assumptions run_fault_none.
Print Assumptions run_fault_hit.
Print Assumptions run_fault_beyond.
Print Assumptions sink_fault_reported.
Print Assumptions run_ops_spec.
Print Assumptions file_bytes_batches.
Print Assumptions empty_write_inert.
Print Assumptions pending_at_close_dropped.
Print Assumptions footer_truthful.
Print Assumptions footer_truthful_history.
Print Assumptions offsets_truthful.
Print Assumptions offsets_truthful_history.
