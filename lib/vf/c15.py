"""C15 - a struct regenerated from a file reads that file back faithfully."""
import os
import random

from . import common as C
from . import files as Fm
from . import shapes as S

ALLOWED = ["int32", "int64", "float32", "float64", "bool", "string"]


def no_rep(t):
    r, ch = t
    return r != "rep" and (ch is None or all(no_rep(c) for c in ch))


def base_shapes(tier):
    trees = [t for t in S.grammar_trees() if all(no_rep(x) for x in t)]
    rng = random.Random(20260929)
    if tier == "quick":
        by = {}
        for t in trees:
            by.setdefault(S.tree_depth(t), []).append(t)
        trees = by.get(1, []) + rng.sample(by.get(2, []), min(30, len(by.get(2, [])))) + rng.sample(by.get(3, []), min(26, len(by.get(3, []))))
    out = []
    for i, t in enumerate(trees):
        sh = S.shape_of_tree("r%04d" % i, t, type_offset=0)
        # leaf types restricted to the six the property names
        k = [i]

        def retype(fs):
            for f in fs:
                if f.is_leaf():
                    f.typ = ALLOWED[k[0] % len(ALLOWED)]
                    k[0] += 1
                else:
                    retype(f.typ)
        retype(sh.fields)
        out.append(sh)
    F = S.F
    out += [S.Shape("rmix1", [F("G", "opt", [F("H", "req", [F("X", "opt", "int32"), F("Y", "req", "string")]), F("Z", "req", "int64")])], desc="opt{req{opt,req},req}"),
            S.Shape("rmix2", [F("G", "req", [F("H", "opt", [F("X", "req", "int32"), F("Y", "opt", "string")])]), F("Z", "opt", "float64")], desc="req{opt{req,opt}},opt"),
            S.Shape("rsame1", [F("Score", "opt", "int32"), F("Pos", "req", [F("X", "opt", "int32"), F("Y", "req", "int32")])], desc="same leaf type under different ancestry: opt, req{opt,req}"),
            S.Shape("rsame2", [F("A", "req", [F("N", "opt", "int64")]), F("B", "opt", [F("M", "opt", "int64"), F("K", "req", "int64")]), F("C", "opt", "int64")], desc="same leaf type under different ancestry: req{opt}, opt{opt,req}, opt"),
            S.Shape("rcat", [F("A", "req", [F("Bc", "req", [F("X", "req", "int32")], col="bc")], col="a"), F("Ab", "req", [F("C", "opt", [F("Y", "req", "int32")], col="c")], col="ab"), F("Z", "opt", "int64")],
                    desc="group paths a.bc and ab.c: equal when written without separators"),
            S.Shape("rmix3", [F("G", "opt", [F("H", "req", [F("X", "opt", "bool")])])], desc="opt{req{opt}}")]
    if S.TAGGED:
      out += [S.Shape("rtag1", [F("ID", "req", "int64", col="id"), F("HomeAddress", "opt", [F("Street", "req", "string", col="street_name"), F("Zip", "opt", "int32", col="zip")], col="home_address"),
                              F("Score", "req", "float64")], desc="snake_case column names given by tags, also for a group"),
            S.Shape("rtag2", [F("A", "req", [F("B", "opt", [F("C", "req", "bool", col="is_set")], col="inner_group")], col="outer_group"), F("Note", "opt", "string", col="note_text")],
                    desc="nested groups with snake_case tag names")]
    return out


def run(chk, st, tier):
    rng = random.Random(chk.seed)
    shapes = base_shapes(tier)
    status, runner = S.build_set("c15-base", shapes)
    if not runner:
        chk.broke("build", "runner of the base shapes does not build")
        return
    good = [s for s in shapes if status[s.name]["status"] == "ok"]
    # 1. write one file per shape with the generated writer; keep the shapes whose own round trip works (the others are C05's findings)
    ws = []
    for s in good:
        vals = S.enum_values(rng, s.model_fields(), cap=12)
        ws.append(Fm.Workload(s, rng.randrange(3), rng.choice((1, 2, 1000)), vals[:6] + ["W"] + vals[6:] + ["W"], "regen"))
    res = Fm.exercise(chk, runner, good, ws, "C15-base", validate_level=0, read=True)
    usable = []
    skipped = 0
    for r in res:
        w = r["w"]
        want = [x for b in w.batches() for x in b]
        ri = r.get("read_impl")
        # (validity of the file is C02's question; a file its own reader reads but the regenerated reader does not is C15's)
        if r["file"] is None or not ri or ri["status"] != "OK" or ri.get("recs", "").split() != " ".join(want).split():
            skipped += 1          # the generated code for this shape is itself broken: reported by C05
            continue
        usable.append((w, r["file"], want))
    # 2. regenerate struct + code from each file with parquetgen -parquet
    regen = []
    for i, (w, f, want) in enumerate(usable):
        rs = S.SrcShape("q%04d" % i, None, w.shape, desc="regenerated from a file of {%s}" % w.shape.desc)
        rs.parquet_bytes = f
        regen.append(rs)
    rstatus, rrunner = S.build_set("c15-regen", regen, check_determinism=False)
    lines_i, lines_m = [], Fm.shape_lines([w.shape for w, _, _ in usable])
    rlines = Fm.shape_lines(regen)
    for i, (w, f, want) in enumerate(usable):
        rs = regen[i]
        chk.count(w.shape.key())
        key = "C15|%s" % w.shape.key()
        if rstatus[rs.name]["status"] != "ok":
            chk.fail(key + "|" + rstatus[rs.name]["status"], "parquetgen -parquet on a file of shape {%s}: %s %s" % (w.shape.desc, rstatus[rs.name]["status"], rstatus[rs.name]["msg"][:200]),
                     dict(w.replay(), file=C.hexs(f)[:20000]))
            continue
        try:
            src = open(os.path.join(C.WORK, "shapes", "c15-regen", rs.name, "generated_struct.go")).read()
        except OSError:
            src = ""
        lines_i.append("t%d parsefields %s" % (i, src.encode().hex()))
        lines_m.append("t%d regen %s" % (i, w.shape.name))
        rlines.append("r%d read %s %s plain" % (i, rs.name, C.hexs(f)))
    env = dict(C.GOENV, VERIF_TMP=os.path.join(C.WORK))
    d0 = os.path.join(C.WORK, "cases")
    with open(os.path.join(d0, "C15-trees.txt"), "w") as fh:
        fh.write("\n".join(lines_i) + "\n")
    rc, out, err = C.run([os.path.join(C.BIN, "corehar"), "run", os.path.join(d0, "C15-trees.txt")], env=env, timeout=900)
    trees = dict(l.split(" ", 1) for l in out.splitlines() if " " in l)
    _, mtrees, _, _ = C.run_cases(lines_m, "C15-model", impl_cmd=["true"])
    reads = {}
    if rrunner:
        with open(os.path.join(d0, "C15-read.txt"), "w") as fh:
            fh.write("\n".join(rlines) + "\n")
        rc, out, err = C.run([rrunner, os.path.join(d0, "C15-read.txt")], timeout=900)
        reads = dict(l.split(" ", 1) for l in out.splitlines() if " " in l)
    mism = 0
    ok = 0
    for i, (w, f, want) in enumerate(usable):
        rs = regen[i]
        if rstatus[rs.name]["status"] != "ok":
            continue
        key = "C15|%s" % w.shape.key()
        a, m = trees.get("t%d" % i), mtrees.get("t%d" % i)
        if a != m:
            mism += 1
            if mism <= 3:
                chk.broke("correspondence:C15", "regenerated struct of {%s}: parse.Fields %s..., model %s..." % (w.shape.desc, (a or "")[:100], (m or "")[:100]))
        # the regenerated struct must have the same columns, nesting, optionality and physical types
        cols = w.shape.columns()
        ra = Fm.parse_read(reads.get("r%d" % i))
        what = None
        if ra is None or (reads.get("r%d" % i) or "").startswith("PANIC"):
            what = "the regenerated reader panics or does not run: %s" % (reads.get("r%d" % i) or "")[:120]
        elif ra["status"] != "OK" or ra.get("recs", "").split() != " ".join(want).split():
            what = "the regenerated reader returns %s rows=%s; records differ from the written ones" % (ra["status"], ra.get("rows"))
        if what:
            chk.fail(key + "|readback", "file of shape {%s} read with the struct regenerated from it: %s" % (w.shape.desc, what), dict(w.replay(), file=C.hexs(f)[:20000]))
        else:
            ok += 1
    chk.coverage["base_shapes"] = len(shapes)
    chk.coverage["shapes_whose_own_roundtrip_works"] = len(usable)
    chk.coverage["skipped_as_C05_findings"] = skipped + (len(shapes) - len(good))
    chk.coverage["regenerated_and_read_back_exactly"] = ok
    chk.coverage["model_vs_impl_mismatches"] = mism
    if usable:
        chk.sample({"shape": usable[0][0].shape.desc, "regenerated_tree": (trees.get("t0") or "")[:200], "read_back": (reads.get("r0") or "")[:100]})
    chk.coverage["rule"] = ("non-repeated shapes of the bounded grammar (groups and leaves required/optional, leaf types int32,int64,float32,float64,bool,string; quick: all of depth 1, 30 of depth 2, 26 of depth 3; thorough: all), "
                            "each written with its generated writer (values: every nil/non-nil combination up to 12), then `parquetgen -parquet` regenerates struct+code from the file, the regenerated struct's column tree is compared with the model's "
                            "(struct_of_schema o schema_of, then parse_root), and the regenerated reader reads the file: records must equal the written ones. Shapes whose own generated code is broken are C05's findings and are skipped here.")
    chk.coverage["explanation"] = "regen_ok (coq/props/C15.v)."
    chk.assumptions += ['shapes whose own generated code is broken are skipped (C05 findings)']
