"""Struct shapes: description, Go source, model tokens, generation of the
reader/writer with parquetgen built from /repo's working tree, and the runner
binary that links all shapes of a set."""
import hashlib
import os
import re
import shutil
import concurrent.futures

from . import common as C

PRIMS = ["int32", "int64", "uint32", "uint64", "float32", "float64", "bool", "string"]
PRIM_BITS = {"int32": 32, "int64": 64, "uint32": 32, "uint64": 64, "float32": 32, "float64": 64, "bool": 1, "string": 0}


class F:
    """One field: name, rep in {'req','opt','rep'}, typ = prim name or list of F (group).
    embedded=True: the group is an embedded struct (its fields are inlined in the model).
    """

    def __init__(self, name, rep, typ, embedded=False, col=None):
        # col: the column name given by a `parquet:"..."` tag (None: the field name is the column name)
        self.name, self.rep, self.typ, self.embedded, self.col = name, rep, typ, embedded, col

    def is_leaf(self):
        return isinstance(self.typ, str)

    def key(self):
        nm = self.name + ("=" + self.col if self.col else "")
        if self.is_leaf():
            return "%s:%s:%s" % (nm, self.rep, self.typ)
        return "%s:%s%s:{%s}" % (nm, self.rep, ":emb" if self.embedded else "", ",".join(f.key() for f in self.typ))


class Shape:
    def __init__(self, name, fields, extra_decl=None, desc=""):
        self.name = name
        self.fields = fields
        self.extra = extra_decl or {}    # group path (tuple of names, () = root) -> list of (position, go field declaration) of excluded fields
        self.desc = desc

    def key(self):
        return ",".join(f.key() for f in self.fields)

    # ---- model view: embedded groups inlined -------------------------------
    def model_fields(self):
        def inline(fs):
            out = []
            for f in fs:
                if f.is_leaf():
                    out.append(F(f.col or f.name, f.rep, f.typ))      # the model knows columns by their column names
                elif f.embedded:
                    out.extend(inline(f.typ))
                else:
                    out.append(F(f.col or f.name, f.rep, inline(f.typ)))
            return out
        return inline(self.fields)

    def ty_tokens(self):
        def go(fs):
            t = ["g", str(len(fs))]
            for f in fs:
                t += [f.name.encode().hex(), f.rep]
                t += ["l", f.typ] if f.is_leaf() else go(f.typ)
            return t
        return " ".join(go(self.model_fields()))

    def columns(self):
        """[(path tuple, reps tuple, prim)] in schema order"""
        out = []

        def go(fs, pth, reps):
            for f in fs:
                if f.is_leaf():
                    out.append((pth + (f.name,), reps + (f.rep,), f.typ))
                else:
                    go(f.typ, pth + (f.name,), reps + (f.rep,))
        go(self.model_fields(), (), ())
        return out

    # ---- Go source ---------------------------------------------------------
    def go_source(self, pkg):
        decls = []
        counter = [0]

        def struct_body(fs, path):
            lines = []
            extras = sorted(self.extra.get(path, []), key=lambda x: x[0])
            ei = 0
            for i, f in enumerate(fs):
                while ei < len(extras) and extras[ei][0] <= i:
                    lines.append("\t" + extras[ei][1])
                    ei += 1
                if f.is_leaf():
                    base = f.typ
                else:
                    counter[0] += 1
                    tname = ("E%d" if f.embedded else "T%d") % counter[0]
                    body = struct_body(f.typ, path + (f.name,))
                    decls.append("type %s struct {\n%s\n}\n" % (tname, body))
                    base = tname
                if not f.is_leaf() and f.embedded:
                    lines.append("\t" + base)
                else:
                    pre = {"req": "", "opt": "*", "rep": "[]"}[f.rep]
                    lines.append("\t%s %s%s%s" % (f.name, pre, base, ' `parquet:"%s"`' % f.col if f.col else ""))
            while ei < len(extras):
                lines.append("\t" + extras[ei][1])
                ei += 1
            return "\n".join(lines)

        root = struct_body(self.fields, ())
        return "package %s\n\ntype Root struct {\n%s\n}\n\n%s" % (pkg, root, "\n".join(decls))


ADAPTER = '''package %(pkg)s

import (
	"io"
	"reflect"

	"verif/harness/hlib"
)

func init() {
	hlib.Register(&hlib.Shape{
		Name: "%(pkg)s",
		Type: reflect.TypeOf(Root{}),
		NewWriter: func(w io.Writer, max int, codec int) (hlib.Writer, error) {
			opts := []func(*ParquetWriter) error{MaxPageSize(max)}
			switch codec {
			case 0:
				opts = append(opts, Uncompressed)
			case 1:
				opts = append(opts, Snappy)
			case 2:
				opts = append(opts, Gzip)
			}
			pw, err := NewParquetWriter(w, opts...)
			if err != nil {
				return nil, err
			}
			return wr{pw}, nil
		},
		NewReader: func(r io.ReadSeeker) (hlib.Reader, error) {
			pr, err := NewParquetReader(r)
			if err != nil {
				return nil, err
			}
			return rd{pr}, nil
		},
	})
}

type wr struct{ p *ParquetWriter }

func (x wr) Add(v reflect.Value) { x.p.Add(v.Interface().(Root)) }
func (x wr) Write() error        { return x.p.Write() }
func (x wr) Close() error        { return x.p.Close() }

type rd struct{ p *ParquetReader }

func (x rd) Next() bool           { return x.p.Next() }
func (x rd) Scan(v reflect.Value) { x.p.Scan(v.Interface().(*Root)) }
func (x rd) Rows() int64          { return x.p.Rows() }
func (x rd) Error() error         { return x.p.Error() }
'''

MAIN = '''package main

import (
	"fmt"
	"os"

	"verif/harness/hlib"
%(imports)s
)

func main() {
	if len(os.Args) > 4 && os.Args[1] == "-parallel" {
		var workers, repeat int
		fmt.Sscan(os.Args[2], &workers)
		fmt.Sscan(os.Args[3], &repeat)
		if err := hlib.RunShapeCasesParallel(os.Args[4], os.Stdout, workers, repeat); err != nil {
			fmt.Fprintln(os.Stderr, err)
			os.Exit(2)
		}
		return
	}
	if err := hlib.RunShapeCases(os.Args[1], os.Stdout); err != nil {
		fmt.Fprintln(os.Stderr, err)
		os.Exit(2)
	}
}
'''


def build_race_runner(setname):
    """the same runner built with the race detector (needs cgo)"""
    root = os.path.join(C.WORK, "shapes", setname)
    out = os.path.join(C.BIN, "run_" + setname + "_race")
    env = dict(C.GOENV, CGO_ENABLED="1")
    rc, o, e = C.run(["go", "build", "-race", "-tags", "verif", "-o", out, "./runner"], cwd=root, timeout=1800, env=env)
    return (out if rc == 0 else None), (o + e)[-800:]


def build_parquetgen():
    out = os.path.join(C.BIN, "parquetgen")
    rc, o, e = C.run(["go", "build", "-o", out, "./cmd/parquetgen"], cwd=C.REPO, timeout=600)
    return rc == 0, (o + e)[-1500:]


def build_set(setname, shapes, check_determinism=True):
    """Generate + compile the shapes.  Returns {shape.name: {"status": ok|gen-fail|compile-error|nondeterministic, "msg": ...}}
    and the path of the runner binary (None when it could not be built)."""
    with C.Lock("shapes-" + setname):
        ok, msg = build_parquetgen()
        status = {s.name: {"status": "ok", "msg": ""} for s in shapes}
        if not ok:
            for s in shapes:
                status[s.name] = {"status": "gen-fail", "msg": "parquetgen does not build: " + msg}
            return status, None
        root = os.path.join(C.WORK, "shapes", setname)
        shutil.rmtree(root, ignore_errors=True)
        os.makedirs(root)
        mod = "verif/shapes_" + re.sub(r"\W", "_", setname)
        with open(os.path.join(root, "go.mod"), "w") as f:
            f.write("module %s\n\ngo 1.23\n\nrequire (\n\tgithub.com/parsyl/parquet v0.0.0\n\tverif/harness v0.0.0\n)\n\n"
                    "replace github.com/parsyl/parquet => %s\n\nreplace verif/harness => %s\n" % (mod, C.REPO, os.path.join(C.VERIF, "go", "harness")))
        try:
            shutil.copy(os.path.join(C.REPO, "go.sum"), os.path.join(root, "go.sum"))
        except OSError:
            pass
        pg = os.path.join(C.BIN, "parquetgen")

        def gen(s):
            d = os.path.join(root, s.name)
            os.makedirs(d)
            if getattr(s, "parquet_bytes", None) is not None:
                # parquetgen -parquet: struct definition regenerated from a file, then reader/writer from it
                with open(os.path.join(d, "in.parquet"), "wb") as f:
                    f.write(s.parquet_bytes)
                rc, o, e = C.run([pg, "-parquet", "in.parquet", "-type", "Root", "-package", s.name, "-struct-output", "generated_struct.go"], cwd=d, timeout=120)
                if rc != 0 or not os.path.exists(os.path.join(d, "parquet.go")):
                    return s.name, "gen-fail", (o + e)[-400:]
                with open(os.path.join(d, "adapter.go"), "w") as f:
                    f.write(ADAPTER % {"pkg": s.name})
                return s.name, "ok", ""
            with open(os.path.join(d, "types.go"), "w") as f:
                f.write(s.go_source(s.name))
            rc, o, e = C.run([pg, "-input", "types.go", "-type", "Root", "-package", s.name], cwd=d, timeout=120)
            if rc != 0 or not os.path.exists(os.path.join(d, "parquet.go")):
                return s.name, "gen-fail", (o + e)[-400:]
            if check_determinism:
                first = open(os.path.join(d, "parquet.go")).read()
                rc, o, e = C.run([pg, "-input", "types.go", "-type", "Root", "-package", s.name, "-output", "parquet2.go"], cwd=d, timeout=120)
                second = open(os.path.join(d, "parquet2.go")).read() if os.path.exists(os.path.join(d, "parquet2.go")) else ""
                try:
                    os.remove(os.path.join(d, "parquet2.go"))
                except OSError:
                    pass
                if first != second:
                    return s.name, "nondeterministic", "two runs of parquetgen differ"
            with open(os.path.join(d, "adapter.go"), "w") as f:
                f.write(ADAPTER % {"pkg": s.name})
            return s.name, "ok", ""

        with concurrent.futures.ThreadPoolExecutor(max_workers=C.NCPU) as ex:
            for name, st, msg in ex.map(gen, shapes):
                status[name] = {"status": st, "msg": msg}
        for s in shapes:
            if status[s.name]["status"] not in ("ok",):
                shutil.rmtree(os.path.join(root, s.name), ignore_errors=True)
        # compile every package; failures are per package
        rc, o, e = C.run(["go", "build", "-tags", "verif", "./..."], cwd=root, timeout=1800)
        if rc != 0:
            cur = None
            for line in (o + e).splitlines():
                m = re.match(r"# %s/(\w+)" % re.escape(mod), line)
                if m:
                    cur = m.group(1)
                    if cur in status:
                        status[cur] = {"status": "compile-error", "msg": ""}
                elif cur in status and len(status[cur]["msg"]) < 400:
                    status[cur]["msg"] += line.strip() + " | "
            for s in shapes:
                if status[s.name]["status"] == "compile-error":
                    shutil.rmtree(os.path.join(root, s.name), ignore_errors=True)
        good = [s.name for s in shapes if status[s.name]["status"] == "ok"]
        os.makedirs(os.path.join(root, "runner"), exist_ok=True)
        with open(os.path.join(root, "runner", "main.go"), "w") as f:
            f.write(MAIN % {"imports": "\n".join('\t_ "%s/%s"' % (mod, n) for n in good)})
        runner = os.path.join(C.BIN, "run_" + setname)
        rc, o, e = C.run(["go", "build", "-tags", "verif", "-o", runner, "./runner"], cwd=root, timeout=1800)
        if rc != 0:
            C.log("runner for set %s does not build: %s" % (setname, (o + e)[-1500:]))
            return status, None
        return status, runner


# ---------------------------------------------------------------------------
# values

def tok_num(n):
    return "I%d" % n if n < (1 << 60) else "Ix%x" % n


EXTREMES = {
    "int32": [0, 1, 0x7FFFFFFF, 0x80000000, 0xFFFFFFFF, 0x80000001, 5, 0xFFFFFFFB],
    "int64": [0, 1, 0x7FFFFFFFFFFFFFFF, 0x8000000000000000, 0xFFFFFFFFFFFFFFFF, 7, 0xFFFFFFFFFFFFFFF9],
    "uint32": [0, 1, 0xFFFFFFFF, 0x80000000, 9],
    "uint64": [0, 1, 0xFFFFFFFFFFFFFFFF, 0x8000000000000000, 11],
    "float32": [0, 0x80000000, 0x7F800000, 0xFF800000, 0x7FC00000, 0x7F800001, 0xFFC12345, 1, 0x7F7FFFFF, 0x3F800000, 0xBF800000, 0x00800000],
    "float64": [0, 0x8000000000000000, 0x7FF0000000000000, 0xFFF0000000000000, 0x7FF8000000000000, 0x7FF0000000000001,
                0xFFF8000000012345, 1, 0x7FEFFFFFFFFFFFFF, 0x3FF0000000000000, 0xBFF0000000000000],
    "bool": [0, 1],
}
STRINGS = [b"", b"a", b"zzz", b"__#NIL#__", b"\xff\xfe\x00\x80", b"abc", b"ab", b"abd", b"\x00", "héllo".encode(), b"x" * 300]


def gen_leaf(rng, prim, extreme=0.5):
    if prim == "string":
        if rng.random() < extreme:
            return "S" + C.hexs(rng.choice(STRINGS))
        return "S" + C.hexs(bytes(rng.randrange(256) for _ in range(rng.randrange(0, 12))))
    if prim == "bool":
        return "I%d" % rng.randrange(2)
    if rng.random() < extreme:
        return tok_num(rng.choice(EXTREMES[prim]))
    return tok_num(rng.randrange(1 << PRIM_BITS[prim]))


def gen_value(rng, fields, maxlist=3, pnull=0.3, extreme=0.5):
    """tokens of one record (a G node) of the model shape [fields]"""
    def field(f):
        if f.rep == "opt" and rng.random() < pnull:
            return ["N"]
        if f.rep == "rep":
            n = rng.choice([0, 0, 1, 1, 2, maxlist]) if maxlist <= 3 else rng.randrange(0, maxlist + 1)
            out = ["L", str(n)]
            for _ in range(n):
                out += one(f)
            return out
        return one(f)

    def one(f):
        if f.is_leaf():
            return [gen_leaf(rng, f.typ, extreme)]
        return group(f.typ)

    def group(fs):
        out = ["G", str(len(fs))]
        for f in fs:
            out += field(f)
        return out
    return " ".join(group(fields))


# ---------------------------------------------------------------------------
# the portfolio

def flat24():
    fs = []
    for p in PRIMS:
        for r in ("req", "opt", "rep"):
            fs.append(F("%s%s" % (p.capitalize(), r.capitalize()), r, p))
    return Shape("flat24", fs, desc="8 primitive types x {required, optional, repeated}")


def person():
    return Shape("person", [
        F("ID", "req", "int32"), F("Age", "opt", "int32"), F("Happiness", "req", "int64"), F("Sadness", "opt", "int64"),
        F("Code", "opt", "string"), F("Funkiness", "req", "float32"), F("Lameness", "opt", "float32"),
        F("Keen", "opt", "bool"), F("Birthday", "req", "uint32"), F("Anniversary", "opt", "uint64"),
        F("Secret", "req", "string"), F("Sleepy", "req", "bool"),
        F("Hobby", "opt", [F("Name", "req", "string"), F("Difficulty", "opt", "int32"),
                           F("Skills", "rep", [F("Name", "req", "string"), F("Difficulty", "req", "string")])]),
        F("Friends", "rep", [F("ID", "req", "int32"), F("Age", "opt", "int32")]),
    ], desc="the repository's Person test struct (Being inlined)")


def document():
    return Shape("document", [
        F("DocID", "req", "int64"),
        F("Links", "opt", [F("Backward", "rep", "int64"), F("Forward", "rep", "int64")]),
        F("Names", "rep", [F("Languages", "rep", [F("Code", "req", "string"), F("Country", "opt", "string")]), F("URL", "opt", "string")]),
    ], desc="the Dremel paper's Document")


def opt3():
    return Shape("opt3", [F("A", "opt", [F("B", "opt", [F("C", "opt", "int32"), F("D", "req", "string")]), F("E", "req", "bool")]), F("Z", "req", "int64")],
                 desc="nested optional groups")


def boolopt():
    return Shape("boolopt", [F("B", "opt", "bool"), F("R", "req", "bool"), F("L", "rep", "bool"), F("S", "opt", "string")], desc="multi-page optional bools")


def reqnest():
    return Shape("reqnest", [F("A", "req", [F("B", "req", [F("C", "req", "int32"), F("D", "req", "string")]), F("E", "req", "float64")]),
                             F("A2", "req", [F("B", "req", [F("C", "req", "uint64")])])],
                 desc="required leaves three deep; same-named groups under different parents")


def embedded_root():
    return Shape("embroot", [F("ID", "req", "int32"), F("Being", "req", [F("Age", "opt", "int32"), F("Name", "req", "string")], embedded=True), F("Z", "opt", "float64")],
                 desc="embedded struct at the root")


def mixnest():
    return Shape("mixnest", [F("G", "opt", [F("H", "req", [F("X", "opt", "int32"), F("Y", "req", "string")]), F("Z", "req", "int64")]),
                             F("R", "req", [F("O", "opt", [F("P", "req", "float32"), F("Q", "opt", "bool")])]),
                             F("L", "rep", [F("M", "req", [F("N", "req", "uint32")])])],
                 desc="groups of different repetition first introduced by the same leaf (opt>req, req>opt, rep>req)")


def flatnum():
    return Shape("flatnum", [F("A", "req", "int64"), F("B", "req", "float64")], desc="two required numeric columns (large pages)")


def replist():
    return Shape("replist", [F("ID", "req", "int64"),
                             F("L", "rep", [F("K", "req", "string"), F("B", "opt", "bool"), F("S", "opt", "string"), F("N", "opt", "int32"),
                                            F("F", "opt", "float32"), F("U", "opt", "uint64"), F("T", "rep", "bool")])],
                 desc="optional leaves of every kind inside a repeated group (several entries per record in an optional column)")


TAGGED = os.environ.get("VERIF_TAGGED", "1") == "1"      # validated on the clean tree; VERIF_TAGGED=0 switches the tagged shapes off


def tagged():
    # (the sub-group comes first in its group: with it after the leaves - opt{req,opt,req{req,opt}} - the generated
    #  assembly re-allocates the outer group and loses the leaves read before, one more shape of the open D9 finding)
    return Shape("tagged", [F("ID", "req", "int64", col="id"),
                            F("HomeAddress", "opt", [F("Geo", "req", [F("Lat", "req", "float64", col="lat"), F("Lon", "opt", "float64")], col="geo_point"),
                                                     F("Street", "req", "string", col="street_name"), F("Zip", "opt", "int32", col="zip")], col="home_address"),
                            F("Tags", "rep", "string", col="tag_list"), F("Score", "req", "float64")],
                 desc="columns renamed by parquet tags (snake_case names, also for groups)")


def portfolio():
    return ([tagged()] if TAGGED else []) + [flat24(), person(), document(), opt3(), boolopt(), reqnest(), embedded_root(), mixnest(), flatnum(), replist()]


def build_all():
    """setup: warm the Go build cache with the portfolio"""
    st, runner = build_set("portfolio", portfolio())
    bad = {k: v for k, v in st.items() if v["status"] != "ok"}
    print("portfolio shapes: %d ok, %d not: %s" % (len(st) - len(bad), len(bad), bad))
    return runner is not None


# ---------------------------------------------------------------------------
# the bounded grammar of C05: node = leaf(req|opt|rep) | group(req|opt|rep, 1..2 children),
# depth <= 3, root with 1..2 children, <= 3 leaves; leaf types cycle through the 8 primitives

REPS = ("req", "opt", "rep")


def _nodes(depth, maxleaves):
    """[(tree, nleaves)] where tree = (rep, None) for a leaf or (rep, [children])"""
    out = []
    if maxleaves < 1:
        return out
    for r in REPS:
        out.append(((r, None), 1))
    if depth > 1:
        for kids, n in _kidlists(depth - 1, maxleaves):
            for r in REPS:
                out.append(((r, kids), n))
    return out


def _kidlists(depth, maxleaves):
    out = []
    one = _nodes(depth, maxleaves)
    for t, n in one:
        out.append(([t], n))
    for t1, n1 in one:
        for t2, n2 in _nodes(depth, maxleaves - n1):
            out.append(([t1, t2], n1 + n2))
    return out


def tree_key(kids):
    def k(t):
        r, ch = t
        return r if ch is None else "%s{%s}" % (r, ",".join(k(c) for c in ch))
    return ",".join(k(t) for t in kids)


def tree_depth(kids):
    def d(t):
        return 1 if t[1] is None else 1 + max(d(c) for c in t[1])
    return max(d(t) for t in kids)


def grammar_trees():
    return [kids for kids, n in _kidlists(3, 3)]


def shape_of_tree(name, kids, type_offset=0):
    counter = [0]
    leafno = [type_offset]

    def mk(t):
        r, ch = t
        counter[0] += 1
        fname = "F%d" % counter[0]
        if ch is None:
            p = PRIMS[leafno[0] % len(PRIMS)]
            leafno[0] += 1
            return F(fname, r, p)
        return F(fname, r, [mk(c) for c in ch])
    return Shape(name, [mk(t) for t in kids], desc=tree_key(kids))


def grammar_sample(tier):
    """fixed (seed-independent) shape sets: quick = all shapes of depth 1 and a stratified
    sample of the rest; thorough = all of depth <= 2 and a stratified 3000 of depth 3"""
    import random as _r
    trees = grammar_trees()
    by_depth = {}
    for t in trees:
        by_depth.setdefault(tree_depth(t), []).append(t)
    rng = _r.Random(20260928)
    chosen = list(by_depth.get(1, []))
    if tier == "quick":
        chosen += rng.sample(by_depth.get(2, []), min(70, len(by_depth.get(2, []))))
        chosen += rng.sample(by_depth.get(3, []), min(68, len(by_depth.get(3, []))))
    else:
        chosen += by_depth.get(2, [])
        chosen += rng.sample(by_depth.get(3, []), min(1000, len(by_depth.get(3, []))))
    out = []
    for i, t in enumerate(chosen):
        out.append(shape_of_tree("g%04d" % i, t, type_offset=i))
    return out


def enum_values(rng, fields, cap=40, rng_struct=None):
    """structurally distinct records: every combination of nil/non-nil and list lengths 0,1,2
    at every level, capped by a random covering sample"""
    rs = rng_struct or rng

    def field_opts(f):
        def one():
            if f.is_leaf():
                return [[gen_leaf(rng, f.typ, 0.4)]]
            return group_opts(f.typ)
        if f.rep == "req":
            return one()
        if f.rep == "opt":
            return [["N"]] + one()
        outs = [["L", "0"]]
        o = one()
        o2 = one()      # a second draw of the leaf values: the two elements of a list differ in content, not only in structure
        if f.is_leaf():
            for _ in range(8):
                if o2 != o:
                    break
                o2 = one()
        if len(o2) != len(o):
            o2 = o
        # element structures are sampled, not taken from the front, so that full and empty elements both occur
        idx = list(range(len(o))) if len(o) <= 3 else [0, len(o) - 1] + rs.sample(range(1, len(o) - 1), 1)
        for i in idx:
            outs.append(["L", "1"] + o[i])
        for i in idx:
            for j in idx:
                outs.append(["L", "2"] + o[i] + o2[j])
        return outs

    def group_opts(fs):
        acc = [["G", str(len(fs))]]
        for f in fs:
            opts = field_opts(f)
            nxt = []
            for a in acc:
                for o in opts:
                    nxt.append(a + o)
            if len(nxt) > 400:
                nxt = rs.sample(nxt, 400)
            acc = nxt
        return acc
    allv = [" ".join(v) for v in group_opts(fields)]
    if len(allv) > cap:
        allv = rs.sample(allv, cap)
    return allv


class SrcShape:
    """A shape given by explicit Go source (decorated / embedded variants); the model view
    (columns, value tokens) is that of [model], the undecorated shape."""

    def __init__(self, name, go_src_fn, model, desc=""):
        self.name, self._src, self.model, self.desc = name, go_src_fn, model, desc or model.desc

    def go_source(self, pkg):
        return self._src(pkg)

    def model_fields(self):
        return self.model.model_fields()

    def ty_tokens(self):
        return self.model.ty_tokens()

    def columns(self):
        return self.model.columns()

    def key(self):
        return self.model.key() + "|" + self.desc
