"""Shared by C08/C10/C11: files from the portfolio and reads of them under a source wrapper."""
import random

from . import common as C
from . import files as Fm
from . import shapes as S


def make_files(chk, runner, shapes, rng, n, maxrecs=8, pages=(1, 2, 1000), name="files", minrecs=0, codec_cycle=False):
    ws = Fm.gen_workloads(rng, shapes, n, maxrecs=maxrecs, pages=pages, minrecs=minrecs, codec_cycle=codec_cycle)
    for w in ws:
        if not w.ops or w.ops[-1] != "W":
            w.ops.append("W")
    lines = Fm.shape_lines(shapes) + [w.line("w%d" % i) for i, w in enumerate(ws)]
    impl, model, e1, e2 = C.run_cases(lines, name, impl_cmd=[runner])
    out = []
    for i, w in enumerate(ws):
        pw = Fm.parse_write(impl.get("w%d" % i))
        if impl.get("w%d" % i) != model.get("w%d" % i):
            chk.broke("correspondence:" + chk.id, "writing %s differs between implementation and model" % (w.describe(),))
        if pw and "1" not in pw[0]:
            out.append((w, b"".join(pw[1])))
    return out


def run_reads(runner, shapes, cases, name, impl_only=()):
    """cases: [(ident, shape, filebytes, mode)] -> impl dict, model dict; idents in impl_only are not given to the model"""
    lines = Fm.shape_lines(shapes) + ["%s read %s %s %s" % (i, sh.name, C.hexs(f), m) for i, sh, f, m in cases]
    ml = None
    if impl_only:
        ml = Fm.shape_lines(shapes) + ["%s read %s %s %s" % (i, sh.name, C.hexs(f), m) for i, sh, f, m in cases if i not in impl_only]
    impl, model, e1, e2 = C.run_cases(lines, name, impl_cmd=[runner], model_lines=ml)
    return impl, model, e1, e2
