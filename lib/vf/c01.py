"""C01 - write-then-read returns exactly the records that were added."""
import random

from . import common as C
from . import files as Fm
from . import shapes as S


def workloads(rng, shapes, tier):
    n = 260 if tier == "quick" else 3000
    ws = Fm.gen_workloads(rng, shapes, n, maxrecs=14, pages=(1, 2, 3, 4, 5, 7, 9, 1000), extreme=0.6)
    # long lists, many records, all partitions of a few records
    for sh in shapes:
        recs = [S.gen_value(rng, sh.model_fields(), maxlist=40, extreme=0.7) for _ in range(4)]
        for mask in range(1 << 4):
            ops = []
            for i, r in enumerate(recs):
                ops.append(r)
                if mask >> i & 1:
                    ops.append("W")
            ops.append("W")
            ws.append(Fm.Workload(sh, rng.randrange(3), rng.choice((1, 2, 3)), ops, "all-partitions"))
        big = [S.gen_value(rng, sh.model_fields(), maxlist=3, extreme=0.5) for _ in range(60 if tier == "quick" else 300)]
        ops = []
        for r in big:
            ops.append(r)
            if rng.random() < 0.05:
                ops.append("W")
        ops.append("W")
        ws.append(Fm.Workload(sh, rng.randrange(3), rng.choice((7, 9, 1000)), ops, "many-records"))
    ws += Fm.run_structured_workloads(rng, shapes, tier)
    # string values beyond 1 KiB / 64 KiB
    ws += Fm.long_string_workloads(rng, shapes, sizes=(1100, 3000) if tier == "quick" else (1100, 3000, 70000))
    # pages beyond 32 KiB (deflate window, read buffers): two numeric columns, 6000 records per page, and exact multiples of 32 KiB
    ws += Fm.big_workloads(shapes, codecs=(2, 1) if tier == "quick" else (2, 1, 0), plans=((6000, 9000),) if tier == "quick" else ((6000, 9000), (4096, 8192)))
    return ws


def oracle(chk, r):
    """the property, evaluated on the real writer + real reader"""
    w = r["w"]
    want = [x for b in w.batches() for x in b]
    key = "%s|c%d|p%d|%s" % (w.shape.name, w.codec, w.max, w.history())
    if r["flags"] is None or "1" in r["flags"]:
        chk.fail(key + "|write", "writing %s failed or panicked: %s" % (w.describe(), (r["impl_write"] or "")[:200]), w.replay())
        return False
    ri = r.get("read_impl")
    if ri is None:
        chk.fail(key + "|read", "reading %s gave no result" % (w.describe(),), w.replay())
        return False
    what = None
    if ri["status"] != "OK":
        what = "reader status %s" % ri["status"]
    elif int(ri["rows"]) != len(want):
        what = "Rows() = %s, %d records were written" % (ri["rows"], len(want))
    elif int(ri["nexts"]) != len(want):
        what = "Next() was true %s times, %d records were written" % (ri["nexts"], len(want))
    elif ri.get("recs", "").split() != " ".join(want).split():
        got, exp = ri.get("recs", "").split(), " ".join(want).split()
        j = next((i for i, (a, b) in enumerate(zip(got, exp)) if a != b), min(len(got), len(exp)))
        what = "records differ at token %d: read %s, written %s" % (j, " ".join(got[j:j + 4]), " ".join(exp[j:j + 4]))
    elif ri.get("stable") != "1":
        what = "a record already scanned was changed by a later read"
    elif r.get("mutated_write") is not None and r["mutated_write"] != r["impl_write"]:
        what = "mutating a record after Add changed the bytes written"
    if what:
        chk.fail(key, "%s: %s" % (w.describe(), what), w.replay())
        return False
    return True


def run(chk, st, tier):
    rng = random.Random(chk.seed)
    shapes, runner = Fm.get_portfolio(chk)
    if not runner:
        return
    ws = workloads(rng, shapes, tier)
    res = Fm.exercise(chk, runner, shapes, ws, "C01", validate_level=0, read=True, mutate=True)
    Fm.correspondence(chk, res)
    ok = 0
    dist = {}
    for r in res:
        w = r["w"]
        chk.count((w.shape.name, w.codec, w.max, tuple(w.ops)), nontrivial=any(o != "W" for o in w.ops))
        dist[w.tag] = dist.get(w.tag, 0) + 1
        dist["codec%d" % w.codec] = dist.get("codec%d" % w.codec, 0) + 1
        dist["page%d" % w.max] = dist.get("page%d" % w.max, 0) + 1
        if oracle(chk, r):
            ok += 1
    chk.coverage["workloads"] = len(ws)
    chk.coverage["roundtrips_correct_on_implementation"] = ok
    chk.coverage["input_distribution"] = dist
    chk.coverage["shapes"] = [s.name + ": " + s.desc for s in shapes]
    for r in res[:2]:
        chk.sample({"workload": r["w"].describe(), "file_bytes": len(r["file"] or b""), "read": (r.get("read_impl_raw") or "")[:160]})
    chk.coverage["rule"] = ("portfolio shapes x random histories with extreme values (min/max ints, +-0, +-Inf, NaN payloads incl. signaling, empty/long/non-UTF8 strings, lists up to 40) x page sizes "
                            "{1,2,3,4,5,7,9,1000} x 3 codecs, all 16 partitions of 4 records per shape, and one long history per shape; each written by the real generated writer and by the model (sink writes compared "
                            "byte for byte), read by the real generated reader and by the model, and the real reader's result compared with the records added; every Add is repeated with the record scrambled afterwards. "
                            "distinct = distinct (shape,codec,page size,history with values); non-trivial = at least one record.")
    chk.coverage["explanation"] = "see coq/props/C01.v for what is proved about the model; aliasing clauses (mutation after Add, stability of scanned records) are exercised on the implementation only."
    chk.assumptions += ["codec contract: decompress (compress x) = x for snappy/gzip (Section hypothesis; the driver binds the real codecs through work/bin/codec)",
                        "the per-shape shredding/assembly code synthesised by parquetgen is replaced in the model by the reference Dremel functions (validated per shape by C03/C05)"]


def replay(chk, st, data):
    Fm.replay_workload(chk, data, [oracle], mutate=True, validate_level=0)
