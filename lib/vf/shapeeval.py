"""Per-shape translation validation (C05, C03, also used by C14/C15): generate
code with parquetgen built from the working tree, compile, run on structurally
distinct values, compare with the proved reference (round trip, validity,
striping)."""
import random
import zlib

from . import common as C
from . import files as Fm
from . import shapes as S


def parse_cols(s):
    """' COL n r d v ... COL ...' -> [[(r,d,v)]]"""
    cols = []
    t = s.split()
    i = 0
    while i < len(t):
        if t[i] == "COL":
            n = int(t[i + 1])
            es = [(t[i + 2 + 3 * k], t[i + 3 + 3 * k], t[i + 4 + 3 * k]) for k in range(n)]
            cols.append(es)
            i += 2 + 3 * n
        else:
            i += 1
    return cols


def parse_rgs(cols_str):
    """'RG COL.. COL.. RG COL..' -> [[col entries]] per row group"""
    if not cols_str:
        return []
    return [parse_cols(part) for part in cols_str.split("RG")[1:]]


def evaluate(chk, setname, shapes, rng, pages=(1, 2, 1000), codecs=(0, 1), cap=40, extra=None):
    """(see module docstring) the value *structures* are drawn from a fixed generator so that the
    set of nil/list-length combinations per shape does not depend on VERIF_SEED; leaf values do."""
    """returns {shape.name: {"kind": ok|gen-fail|compile-error|nondeterministic|panic|mismatch|invalid-file|striping|write-error|model-mismatch,
                             "detail": str, "replay": dict, "workloads": n}}"""
    status, runner = S.build_set(setname, shapes)
    out = {}
    good = []
    for s in shapes:
        st = status[s.name]
        if st["status"] != "ok":
            out[s.name] = {"kind": st["status"], "wkind": "n/a", "rkind": "n/a", "detail": st["msg"][:300],
                           "replay": {"shape": s.desc, "go": s.go_source(s.name)}, "workloads": 0, "model_mismatch": 0}
        else:
            good.append(s)
    if runner is None:
        for s in good:
            out[s.name] = {"kind": "compile-error", "wkind": "n/a", "rkind": "n/a", "detail": "runner does not link", "replay": {"shape": s.desc}, "workloads": 0, "model_mismatch": 0}
        return out, status
    ws = []
    for s in good:
        vals = S.enum_values(rng, s.model_fields(), cap=cap, rng_struct=random.Random(zlib.crc32(s.key().encode())))
        k = 0
        for mx in pages:
            for codec in codecs:
                ops = []
                for i, v in enumerate(vals):
                    ops.append(v)
                    if (i + k) % 7 == 6:
                        ops.append("W")
                ops.append("W")
                ws.append(Fm.Workload(s, codec, mx, ops, "enum"))
                k += 1
    if extra:
        ws += extra(good)
    res = Fm.exercise(chk, runner, good, ws, setname, validate_level=2, read=True)
    # reference striping of every distinct record
    recs = {}
    for w in ws:
        for o in w.ops:
            if o != "W":
                recs.setdefault((w.shape.name, o), len(recs))
    lines = Fm.shape_lines(good) + ["s%d stripe %s %s" % (i, name, rec) for (name, rec), i in recs.items()]
    _, stripes, _, e2 = C.run_cases(lines, setname + "-stripe", impl_cmd=["true"])
    stripe = {}
    for (name, rec), i in recs.items():
        r = stripes.get("s%d" % i, "")
        stripe[(name, rec)] = parse_cols(r) if r.startswith("TYPED") else None
    worder = ["panic", "write-error", "invalid-file", "striping", "ok"]
    rorder = ["panic", "mismatch", "ok"]
    per_shape = {s.name: {"kind": "ok", "wkind": "ok", "rkind": "ok", "detail": "", "wdetail": "", "replay": None, "wreplay": None,
                          "workloads": 0, "model_mismatch": 0} for s in good}
    for r in res:
        w = r["w"]
        wkind, wdetail, rkind, rdetail = "ok", "", "ok", ""
        a = r["impl_write"] or ""
        want = [x for b in w.batches() for x in b]
        ri = r.get("read_impl")
        if a.startswith("PANIC") or not a:
            wkind, wdetail = "panic", ("writer: " + a)[:200]
        elif r["flags"] is None or "1" in r["flags"]:
            wkind, wdetail = "write-error", a[:200]
        elif not r["validate"] or not r["validate"]["valid"]:
            wkind, wdetail = "invalid-file", (r["validate"] or {}).get("error", "no verdict")
        else:
            rgs = parse_rgs(r["validate"].get("cols"))
            bs = w.batches()
            if len(rgs) != len(bs):
                wkind, wdetail = "striping", "row groups %d vs batches %d" % (len(rgs), len(bs))
            else:
                for g, b in enumerate(bs):
                    exp = None
                    for rec in b:
                        sc = stripe.get((w.shape.name, rec))
                        if sc is None:
                            exp = None
                            break
                        exp = [x + y for x, y in zip(exp, sc)] if exp is not None else [list(c) for c in sc]
                    if exp is not None and exp != rgs[g]:
                        ci = next((i for i, (x, y) in enumerate(zip(exp, rgs[g])) if x != y), 0)
                        wkind = "striping"
                        wdetail = "column %d of row group %d holds (rep,def,value) %s..., canonical striping is %s..." % (ci, g, rgs[g][ci][:5], exp[ci][:5])
                        break
        if wkind in ("ok", "striping", "invalid-file"):
            raw = r.get("read_impl_raw") or ""
            if raw.startswith("PANIC") or ri is None:
                rkind, rdetail = "panic", ("reader: " + raw)[:200]
            elif ri["status"] != "OK" or int(ri["rows"]) != len(want) or int(ri["nexts"]) != len(want) \
                    or ri.get("recs", "").split() != " ".join(want).split():
                rkind = "mismatch"
                got, exp = ri.get("recs", "").split(), " ".join(want).split()
                j = next((i for i, (x, y) in enumerate(zip(got, exp)) if x != y), min(len(got), len(exp)))
                rdetail = "read back %s rows=%s nexts=%s, %d records written; first difference at token %d: read %s, written %s" % (
                    ri["status"], ri.get("rows"), ri.get("nexts"), len(want), j, " ".join(got[j:j + 4]), " ".join(exp[j:j + 4]))
        ps = per_shape[w.shape.name]
        ps["workloads"] += 1
        if worder.index(wkind) < worder.index(ps["wkind"]):
            ps["wkind"], ps["wdetail"], ps["wreplay"] = wkind, wdetail, dict(w.replay(), shape_desc=w.shape.desc)
        if rorder.index(rkind) < rorder.index(ps["rkind"]):
            ps["rkind"], ps["rdetail"], ps["rreplay"] = rkind, rdetail, dict(w.replay(), shape_desc=w.shape.desc)
        if wkind == "ok" and rkind == "ok" and (not r["write_agree"] or not r.get("read_agree", True)):
            ps["model_mismatch"] += 1
    for name, ps in per_shape.items():
        if ps["wkind"] != "ok" or ps["rkind"] != "ok":
            ps["kind"] = "runtime"
            ps["detail"] = "; ".join(x for x in (ps["wkind"] != "ok" and "%s (%s)" % (ps["wkind"], ps["wdetail"]), ps["rkind"] != "ok" and "%s (%s)" % (ps["rkind"], ps.get("rdetail", ""))) if x)
            ps["replay"] = ps["wreplay"] or ps.get("rreplay")
    out.update(per_shape)
    return out, status
