"""Source census: structural facts about /repo that the models assume (reads of the
source only through ReadFull-like helpers; buffer pools the only shared state, Get
paired with deferred Put; no goroutines), regenerated on every run into
coq/gen/SourceFacts.v by /verif/go/translator (census mode)."""
import json
import os

from . import common as C
from . import shapes as S


def regenerate(st):
    st["census_ok"] = False
    ok, msg = S.build_parquetgen()
    if not ok:
        st["census_msg"] = "parquetgen does not build: " + msg
        return
    d = os.path.join(C.WORK, "census")
    os.makedirs(d, exist_ok=True)
    sample = S.flat24()
    with open(os.path.join(d, "types.go"), "w") as f:
        f.write(sample.go_source("census"))
    rc, o, e = C.run([os.path.join(C.BIN, "parquetgen"), "-input", "types.go", "-type", "Root", "-package", "census"], cwd=d, timeout=120)
    if rc != 0:
        st["census_msg"] = "parquetgen failed on the census sample: " + (o + e)[-300:]
        return
    tmp = os.path.join(C.WORK, "SourceFacts.v.new")
    rc, o, e = C.run([os.path.join(C.BIN, "translator"), "census", C.REPO, os.path.join(d, "parquet.go"), tmp, os.path.join(d, "census.json")])
    if rc != 0:
        st["census_msg"] = "census tool failed: " + (o + e)[-300:]
        return
    C.write_if_changed(os.path.join(C.COQ, "gen", "SourceFacts.v"), open(tmp).read())
    st["census"] = json.load(open(os.path.join(d, "census.json")))
    st["census_ok"] = True
