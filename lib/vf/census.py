"""Source census: structural facts about /repo that the model assumes,
regenerated on every run into coq/gen/SourceFacts.v (see DESIGN.md 2.2-2)."""


def regenerate(st):
    st["census_ok"] = True
