"""C03 - column data is the canonical Dremel striping of the records."""
import random

from . import common as C
from . import files as Fm
from . import shapes as S
from . import shapeeval as E


def run(chk, st, tier):
    rng = random.Random(chk.seed)
    shapes = S.portfolio() + S.grammar_sample(tier)
    for s in S.portfolio():
        s.name = "p_" + s.name
    shapes = [s for s in shapes]
    # plus pages with hundreds / thousands of levels (run boundaries of the hybrid level encoding) on two portfolio shapes
    out, status = E.evaluate(chk, "striping-" + tier, shapes, rng, codecs=(0,), cap=60,
                             extra=lambda good: Fm.run_structured_workloads(rng, good, tier))
    kinds = {}
    ncols = 0
    for s in shapes:
        v = out[s.name]
        if v["kind"] in ("gen-fail", "compile-error", "nondeterministic"):
            kinds["not-compiled (C05)"] = kinds.get("not-compiled (C05)", 0) + 1
            continue      # no program to observe: C05's business
        chk.count(s.key(), nontrivial=True)
        wk = v["wkind"]
        kinds[wk] = kinds.get(wk, 0) + 1
        ncols += len(s.columns())
        if wk != "ok":
            chk.fail("C03|%s|%s" % (s.key(), "write-side"), "shape {%s}: %s - %s" % (s.desc, wk, v["wdetail"][:300]), v.get("wreplay") or {"shape": s.desc})
    mm = sum(v.get("model_mismatch", 0) for v in out.values())
    if mm:
        chk.broke("correspondence:C03", "%d workloads pass every oracle but implementation and model disagree byte-wise" % mm)
    chk.coverage["shapes_observed"] = sum(v for k, v in kinds.items() if not k.startswith("not-compiled"))
    chk.coverage["columns_observed"] = ncols
    chk.coverage["verdicts"] = kinds
    chk.coverage["workloads"] = sum(v["workloads"] for v in out.values())
    for s in shapes[:2]:
        chk.sample({"shape": s.desc, "verdict": out[s.name].get("wkind"), "workloads": out[s.name]["workloads"]})
    chk.coverage["rule"] = ("portfolio shapes and the fixed C05 grammar set; per shape every structurally distinct record (nil/non-nil and list lengths 0,1,2 at every level, capped at 60) x page sizes {1,2,1000}, plus run-structured level streams (runs of exactly 8/63/64/65/128/505/512/8200 records, alternating records) on two portfolio shapes: "
                            "the real writer's file is decoded by the extracted validator (independent of the library's decoder) and every column's (rep,def,value) entries per row group are compared with the reference "
                            "Dremel.shred_record of the same records; the validator also checks level bounds and reassembles the records with the reference assembler. distinct = distinct shapes.")
    chk.coverage["explanation"] = "C03_* theorems (coq/props/C03.v) prove the reference striping lossless, level-bounded and sibling-consistent for all shapes and records; this run ties the generated shredders to it per shape."
    chk.assumptions += ['the theorems are about the reference striping; generated shredders are compared with it per shape up to the enumeration bound (list lengths <= 2, <= 60 structures per shape)']
