"""C06 - every Add/Write/Close history gives one row group per non-empty batch."""
import itertools
import random

from . import common as C
from . import files as Fm
from . import shapes as S
from . import c01, c02


def histories(rng, shapes, tier):
    maxlen = 7 if tier == "quick" else 9
    out = []
    use = [s for s in shapes if s.name in ("opt3", "boolopt", "reqnest", "document")] or shapes[:3]
    pools = {s.name: [S.gen_value(rng, s.model_fields(), maxlist=2) for _ in range(4)] for s in use}
    k = 0
    for n in range(0, maxlen + 1):
        for h in itertools.product("AW", repeat=n):
            sh = use[k % len(use)]
            k += 1
            pool = pools[sh.name]
            ops = [("W" if c == "W" else pool[(i + k) % len(pool)]) for i, c in enumerate(h)]
            out.append(Fm.Workload(sh, k % 3, 1 + (k // 3) % 3, ops, "exhaustive"))
    # batches of exactly k*max and k*max+1, long random histories
    for sh in use:
        for mx in (1, 2, 3, 8, 16):           # (8, 16: a page of bools that fills its last byte exactly)
            for kk in (1, 2, 3):
                for extra in (0, 1):
                    ops = [pools[sh.name][i % 4] for i in range(kk * mx + extra)] + ["W", "W"] + [pools[sh.name][0]] * extra
                    out.append(Fm.Workload(sh, rng.randrange(3), mx, ops, "page-boundary"))
    for _ in range(20 if tier == "quick" else 200):
        sh = rng.choice(use)
        ops = [("W" if rng.random() < 0.3 else rng.choice(pools[sh.name])) for _ in range(rng.randrange(10, 200))]
        out.append(Fm.Workload(sh, rng.randrange(3), rng.choice((1, 2, 3, 5)), ops, "long-random"))
    return out


def run(chk, st, tier):
    rng = random.Random(chk.seed)
    shapes, runner = Fm.get_portfolio(chk)
    if not runner:
        return
    ws = histories(rng, shapes, tier)
    res = Fm.exercise(chk, runner, shapes, ws, "C06", validate_level=1, read=True)
    Fm.correspondence(chk, res)
    ok = 0
    dist = {}
    for r in res:
        w = r["w"]
        chk.count((w.shape.name, w.codec, w.max, tuple(w.ops)), nontrivial=True)
        dist[w.tag] = dist.get(w.tag, 0) + 1
        if c02.oracle(chk, r) and c01.oracle(chk, r):
            ok += 1
    # a Write with nothing pending never changes what any other batch reads back as:
    # compare each history with the same history with every empty Write removed
    by_hist = {}
    for r in res:
        w = r["w"]
        canon = []
        for o in w.ops:
            if o == "W" and (not canon or canon[-1] == "W"):
                continue
            canon.append(o)
        while canon and canon[-1] != "W":
            canon.pop()
        by_hist.setdefault((w.shape.name, w.codec, w.max, tuple(canon)), []).append(r)
    groups = 0
    for k, rs in by_hist.items():
        files = set(r["file"] for r in rs if r["file"] is not None)
        if len(rs) > 1:
            groups += 1
        if len(files) > 1:
            a, b = rs[0]["w"], next(r["w"] for r in rs if r["file"] != rs[0]["file"])
            chk.fail("inert|%s|%s|%s" % (k[0], a.history(), b.history()),
                     "histories %s and %s of %s differ only in empty Write calls and pending records at Close but produce different files" % (a.history(), b.history(), k[0]),
                     {"a": a.replay(), "b": b.replay()})
    chk.coverage["histories"] = len(ws)
    chk.coverage["histories_correct_on_implementation"] = ok
    chk.coverage["groups_of_histories_equal_up_to_empty_writes"] = groups
    chk.coverage["input_distribution"] = dist
    chk.coverage["exhaustive"] = False
    for r in res[40:42]:
        chk.sample({"workload": r["w"].describe(), "validator": (r.get("validate_raw") or "")[:120]})
    chk.coverage["rule"] = ("every history over {Add, Write} up to length %d (then Close), cycling through 4 shapes, 3 codecs and page sizes 1..3, records from a pool of 4; batches of exactly k*max and k*max+1; long random histories. "
                            "Per history: sink writes model vs implementation byte for byte; validator on the real bytes (one row group per non-empty batch, rows, records); real reader vs records of the non-empty written batches; "
                            "histories that differ only by empty Writes / records pending at Close must give identical files. distinct = distinct histories with values." % (7 if tier == "quick" else 9))
    chk.coverage["explanation"] = "see coq/props/C06.v: file_bytes_batches, empty_write_inert, pending_at_close_dropped, footer row counts."
    chk.assumptions += ['writer model tied to the code by byte-exact sink-write comparison on every history of the run']


def replay(chk, st, data):
    if 'a' in data:
        data = data['a']
    Fm.replay_workload(chk, data, [c02.oracle, c01.oracle])
