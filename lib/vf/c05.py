"""C05 - parquetgen never emits silently wrong code for any documented struct shape."""
import random

from . import common as C
from . import shapes as S
from . import shapeeval as E

LEVEL = "translation_validation"


def extras():
    """documented extras beyond the grammar: embedded struct at the root, bool-only struct,
    excluded fields; (embedding inside a group is C14's known finding)"""
    F = S.F
    port = S.portfolio()
    for sh in port:
        sh.name = "x_" + sh.name
        sh.desc = "extra:" + sh.desc
    return port + [
        S.Shape("x_boolonly", [F("A", "req", "bool"), F("B", "opt", "bool"), F("C", "rep", "bool")], desc="extra:bool-only struct"),
        S.Shape("x_embroot2", [F("ID", "req", "int32"), F("Being", "req", [F("Age", "opt", "int32"), F("Name", "req", "string")], embedded=True)], desc="extra:embedded at root"),
        S.Shape("x_excluded", [F("A", "req", "int64"), F("B", "opt", "string")],
                extra_decl={(): [(0, "hidden int32"), (1, 'Skip struct{ Y int32 } `parquet:"-"`'), (2, "_pad uint64")]}, desc="extra:excluded fields"),
    ]


def classify(chk, shapes, out, prop="C05"):
    kinds = {}
    for s in shapes:
        v = out[s.name]
        kinds[v["kind"]] = kinds.get(v["kind"], 0) + 1
        chk.count(s.key(), nontrivial=True)
        if v["kind"] == "ok":
            continue
        cls = "runtime" if v["kind"] == "runtime" else "static:" + v["kind"]
        key = "%s|%s|%s" % (prop, s.key(), cls)
        what = "shape {%s}: %s - %s" % (s.desc, v["kind"], v["detail"][:300].replace("\n", " "))
        chk.fail(key, what, v.get("replay") or {"shape": s.desc, "go": s.go_source(s.name)})
    return kinds


def run(chk, st, tier):
    rng = random.Random(chk.seed)
    shapes = S.grammar_sample(tier) + extras()
    out, status = E.evaluate(chk, "grammar-" + tier, shapes, rng)
    kinds = classify(chk, shapes, out)
    mm = sum(v.get("model_mismatch", 0) for v in out.values())
    if mm:
        chk.broke("correspondence:C05", "%d workloads pass every oracle but implementation and model disagree byte-wise" % mm)
    chk.coverage["programs"] = len(shapes)
    chk.coverage["disagreements_checked"] = sum(v["workloads"] for v in out.values())
    chk.coverage["verdicts"] = kinds
    chk.coverage["model_vs_impl_mismatches"] = mm
    for s in shapes[:3]:
        chk.sample({"shape": s.desc, "go_struct": s.go_source(s.name)[:300], "verdict": out[s.name]["kind"], "workloads": out[s.name]["workloads"]})
    chk.coverage["rule"] = ("fixed shape set of the bounded grammar (node = leaf|group x req|opt|rep, <=2 children, depth<=3, <=3 leaves; 44031 shapes): %s, plus 3 documented extras. "
                            "Per shape: parquetgen (built from the working tree) run twice (determinism), go build, then every structurally distinct record (nil/non-nil, list lengths 0,1,2 at every level; capped at 40 by a fixed sample) "
                            "x page sizes {1,2,1000} x {uncompressed,snappy}: real writer -> validator (validity, canonical striping vs the proved reference) -> real reader (records, rows, Next count). "
                            "A shape that fails is a known finding only if listed with the same class (static:gen-fail | static:compile-error | runtime); anything else is a violation." %
                            ("all 12 of depth 1, 70 of depth 2, 68 of depth 3" if tier == "quick" else "all 831 of depth <= 2 and 1000 of depth 3"))
    chk.coverage["explanation"] = ("translation validation: the reference (Dremel striping lossless, codecs, file validity) is proved in Coq for all shapes and values; each generated program is validated against it. "
                                   "A proof about fields.Init/RepCases for all shapes would need a semantics of the emitted Go text, which is not available offline (DESIGN.md 5/C05).")
    chk.assumptions += ["the value enumeration is bounded (list lengths <= 2, 40 structures per shape)"]
