"""Choice-driven foreign files (C04, C18): python generates the choices, the
extracted Foreign.foreign_file writes the file, the real generated reader reads it."""
import random

from . import common as C
from . import files as Fm
from . import shapes as S


def gen_col_choice(rng, codecs=(0, 1, 2)):
    np_ = rng.randrange(0, 4)
    sizes = [rng.choice((1, 1, 2, 3, 5)) for _ in range(np_)]
    def choices():
        k = rng.random()
        if k < 0.2:
            return []                                            # all RLE, longest... (even 0: run of length 1)
        if k < 0.4:
            return [rng.choice((1, 3, 17, 125, 127, 139))] * 6    # bit-packed, various group counts (incl. 64+)
        return [rng.randrange(0, 400) for _ in range(rng.randrange(1, 12))]
    return {"codec": rng.choice(codecs), "sizes": sizes, "reps": choices(), "defs": choices(), "pad": rng.choice((0, 1, 3, 7, 15)),
            "stats": rng.choice((0, 1, 2)), "crc": rng.randrange(2), "fok": rng.randrange(3), "encstats": rng.randrange(2)}


def col_choice_tokens(c):
    return "%d %d %s %d %s %d %s %d %d %d %d %d" % (
        c["codec"], len(c["sizes"]), " ".join(map(str, c["sizes"])), len(c["reps"]), " ".join(map(str, c["reps"])),
        len(c["defs"]), " ".join(map(str, c["defs"])), c["pad"], c["stats"], c["crc"], c["fok"], c["encstats"])


def file_choice_tokens(fc):
    cols = " ".join(col_choice_tokens(c) for c in fc["cols"])
    inj = "none"
    if fc.get("inject"):
        g, j, p, kind = fc["inject"]
        inj = "inj %d %d %d %s" % (g, j, p, kind)
    t = "fc %d %s %s %d %d %s" % (len(fc["cols"]), cols, fc["created_by"] or "NONE", fc["kv"], fc["bsu"], inj)
    return " ".join(t.split())


def gen_file_choice(rng, ncols=5):
    return {"cols": [gen_col_choice(rng) for _ in range(rng.randrange(1, ncols + 1))],
            "created_by": rng.choice([None, "666f726569676e2d777269746572", "00"]), "kv": rng.randrange(2), "bsu": rng.randrange(2), "inject": None}


def foreign_line(ident, shape, fc, batches):
    b = " ".join("%d %s" % (len(x), " ".join(x)) for x in batches)
    return "%s foreign %s %s %d %s" % (ident, shape.name, file_choice_tokens(fc), len(batches), b)


def gen_batches(rng, shape, maxrecs=10, maxlist=3, allow_empty=False):
    n = rng.randrange(1, maxrecs + 1)
    recs = [S.gen_value(rng, shape.model_fields(), maxlist=maxlist, extreme=0.4) for _ in range(n)]
    out, cur = [], []
    for r in recs:
        cur.append(r)
        if rng.random() < 0.3:
            out.append(cur)
            cur = []
    if cur:
        out.append(cur)
    # a conformant file may hold row groups with no rows (in the middle, first or last)
    if allow_empty and rng.random() < 0.25:
        for _ in range(rng.randrange(1, 3)):
            out.insert(rng.randrange(len(out) + 1), [])
    return out


def make_files(shapes, cases, name):
    """cases: [(ident, shape, fc, batches)] -> {ident: bytes} written by the extracted foreign writer"""
    lines = Fm.shape_lines(shapes) + [foreign_line(i, sh, fc, b) for i, sh, fc, b in cases]
    _, model, _, e2 = C.run_cases(lines, name, impl_cmd=["true"])
    out = {}
    for i, sh, fc, b in cases:
        r = model.get(i)
        if r and not r.startswith("MODEL-FAILURE") and not r.startswith("UNKNOWN"):
            out[i] = bytes.fromhex(r) if r != "-" else b""
    return out, e2
