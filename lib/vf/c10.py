"""C10 - a failed read or seek never turns into silently wrong rows."""
import random

from . import common as C
from . import files as Fm
from . import readmodes as R

LEVEL = "proof"


def run(chk, st, tier):
    rng = random.Random(chk.seed)
    shapes, runner = Fm.get_portfolio(chk)
    if not runner:
        return
    small = [s for s in shapes if s.name != "flat24"] or shapes
    # (few files in the quick tier: every codec gets its share and every file has records, whatever the seed)
    files = R.make_files(chk, runner, small, rng, 15 if tier == "quick" else 120, maxrecs=5, name="C10-files", minrecs=1, codec_cycle=True)
    # fault-free pass: number of source operations of each read
    base_cases = [("p%d" % i, w.shape, f, "plain") for i, (w, f) in enumerate(files)]
    impl0, model0, _, _ = R.run_reads(runner, small, base_cases, "C10-base")
    cases = []
    for i, (w, f) in enumerate(files):
        ri = Fm.parse_read(impl0.get("p%d" % i))
        if not ri or ri["status"] != "OK":
            chk.broke("oracle:C10", "fault-free read of %s is not OK: %s" % (w.describe(), (impl0.get("p%d" % i) or "")[:100]))
            continue
        nops = int(ri["ops"])
        ks = range(nops) if (tier == "thorough" or nops <= 400) else sorted(set(list(range(60)) + rng.sample(range(nops), 200)))
        for k in ks:
            cases.append(("f%d_%d" % (i, k), w.shape, f, "fail:%d" % k))
            if k % 3 == 0:
                cases.append(("g%d_%d" % (i, k), w.shape, f, "failp:%d" % k))
    # implementation: real faults; model: faults at every model-level operation (sets of outcomes are compared)
    lines = Fm.shape_lines(small) + ["%s read %s %s %s" % (i, sh.name, C.hexs(f), m) for i, sh, f, m in cases]
    impl, _, e1, _ = C.run_cases(lines, "C10-impl", impl_cmd=[runner])
    mlines = Fm.shape_lines(small)
    for i, (w, f) in enumerate(files):
        for j in range(0, 120):
            mlines.append("m%d_%d read %s %s fail:%d" % (i, j, w.shape.name, C.hexs(f), j))
    _, model, _, e2 = C.run_cases(mlines, "C10-model", impl_cmd=["true"], timeout=3500)
    if e2[0] != 0:
        chk.broke("correspondence:C10", "model driver did not finish: rc=%s %s" % (e2[0], e2[1]))
    bad = 0
    outcomes_impl = {}
    for ident, sh, f, m in cases:
        i = int(ident[1:].split("_")[0])
        w = files[i][0]
        a = impl.get(ident)
        good = Fm.parse_read(impl0.get("p%d" % i))
        ra = Fm.parse_read(a)
        chk.count((sh.name, f, m))
        key = "%s|c%d|p%d|%s|%s" % (sh.name, w.codec, w.max, w.history(), m.split(":")[0])
        what = None
        if ra is None or a.startswith("PANIC"):
            what = "panics: %s" % (a or "")[:100]
        elif ra["status"] == "OK":
            # no error reported: every row delivered must be correct and none missing
            if ra.get("recs") != good.get("recs") or ra["nexts"] != good["nexts"]:
                what = "no error is reported but the rows differ from the fault-free read (%s rows delivered, %s expected)" % (ra["nexts"], good["nexts"])
        elif ra["status"] == "ERR":
            # error reported after Next returned false: rows delivered so far must be a correct prefix
            got, exp = (ra.get("recs") or "").split(), (good.get("recs") or "").split()
            if got != exp[:len(got)]:
                what = "an error is reported, but rows delivered before it are wrong"
        outcomes_impl.setdefault(i, set()).add((ra["status"], ra.get("nexts")) if ra else ("PANIC", None))
        if what:
            bad += 1
            chk.fail(key, "%s, source operation %s fails: %s" % (w.describe(), m, what), dict(w.replay(), mode=m, file=C.hexs(f)[:20000]))
    # model outcome sets vs implementation outcome sets
    setdiff = 0
    for i, (w, f) in enumerate(files):
        om = set()
        for j in range(120):
            r = Fm.parse_read(model.get("m%d_%d" % (i, j)))
            if r:
                om.add((r["status"], r.get("nexts")))
        oi = outcomes_impl.get(i, set())
        if oi and not oi <= om:
            setdiff += 1
            if setdiff <= 3:
                chk.broke("correspondence:C10", "%s: implementation outcomes %s not all among the model's %s" % (w.describe(), sorted(oi - om), sorted(om)))
    chk.coverage["files"] = len(files)
    chk.coverage["fault_runs"] = len(cases)
    chk.coverage["violating_runs"] = bad
    chk.coverage["outcome_sets_not_covered_by_model"] = setdiff
    chk.coverage["exhaustive"] = True
    if cases:
        chk.sample({"file": files[0][0].describe(), "mode": cases[3][3], "implementation": (impl.get(cases[3][0]) or "")[:100]})
    chk.coverage["rule"] = ("portfolio files (3 codecs, page sizes 1,2,1000) read by the real generated reader behind a source whose k-th Read/Seek call fails, for EVERY k (and with partial data returned with the error for every third k); "
                            "each outcome must be: constructor error, or Error() non-nil with the delivered rows a correct prefix, or no error and exactly the right rows; never a panic. "
                            "The set of (status, rows delivered) outcomes is compared with the model's set over all model-level operations. distinct = distinct (file, k, kind).")
    chk.coverage["explanation"] = "src_fault_safe (coq/props/C10.v) proves the same statement for the reader model for every file (valid or not), schedule and fault position."
    chk.assumptions += ['model fault granularity is one source operation; implementation faults are injected at every Read/Seek call; the thrift decoder is assumed to propagate a source error']
