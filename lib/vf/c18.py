"""C18 - files outside the supported subset are refused, not misread."""
import random

from . import common as C
from . import files as Fm
from . import foreign as Fo
from . import shapes as S

KINDS = ["dict", "index", "v2", "enc 2", "enc 8", "enc 5", "enc 3", "defbp", "repbp", "codec 3", "codec 4", "codec 5", "codec 6", "codec 7"]


def run(chk, st, tier):
    rng = random.Random(chk.seed)
    shapes, runner = Fm.get_portfolio(chk)
    if not runner:
        return
    nbase = 26 if tier == "quick" else 400
    cases = []
    k = 0
    for b in range(nbase):
        sh = shapes[b % len(shapes)]
        fc = Fo.gen_file_choice(rng)
        batches = Fo.gen_batches(rng, sh, maxrecs=8 if sh.name != "flat24" else 4)
        cols = sh.columns()
        base_id = "b%d" % b
        cases.append((base_id, sh, fc, batches, None))
        kinds = KINDS if tier == "thorough" else rng.sample(KINDS, 7) + ["dict", "v2"]
        for kind in kinds:
            for _ in range(2):
                g = rng.randrange(len(batches))
                j = rng.randrange(len(cols))
                p = rng.choice((0, 0, 1))
                fci = dict(fc, inject=(g, j, p, kind))
                cases.append(("i%d" % k, sh, fci, batches, (base_id, g, j, p, kind)))
                k += 1
    files, e2 = Fo.make_files(shapes, [(i, sh, fc, b) for i, sh, fc, b, _ in cases], "C18-write")
    lines = Fm.shape_lines(shapes)
    for i, sh, fc, b, inj in cases:
        if i in files:
            lines.append("%s read %s %s plain" % (i, sh.name, C.hexs(files[i])))
    impl, model, e1, e2 = C.run_cases(lines, "C18-read", impl_cmd=[runner])
    mism = 0
    refused = 0
    skipped = 0
    dist = {}
    for i, sh, fc, b, inj in cases:
        if i not in files:
            chk.broke("machinery:C18", "no file for case %s" % i)
            continue
        a, m = impl.get(i), model.get(i)
        if Fm.strip_read(a) != m:
            mism += 1
            if mism <= 3:
                chk.broke("correspondence:C18", "%s inject=%s: real reader %s..., reader model %s..." % (sh.name, inj, (a or "")[:80], (m or "")[:80]))
        if inj is None:
            ra = Fm.parse_read(a)
            if not ra or ra["status"] != "OK":
                chk.broke("oracle:C18", "base file of %s is not read OK: %s" % (sh.name, (a or "")[:80]))
            continue
        base_id, g, j, p, kind = inj
        if files[i] == files.get(base_id):
            skipped += 1            # the page position does not exist: nothing was injected
            continue
        col = sh.columns()[j]
        has_def = any(r != "req" for r in col[1])
        has_rep = any(r == "rep" for r in col[1])
        if (kind == "defbp" and not has_def) or (kind == "repbp" and not has_rep):
            skipped += 1            # the property excludes bit-packed levels on a column without levels
            continue
        chk.count((sh.name, files[i]))
        dist[kind.split()[0]] = dist.get(kind.split()[0], 0) + 1
        ra = Fm.parse_read(a)
        want_prefix = [x for batch in b[:g] for x in batch]
        what = None
        if ra is None or (a or "").startswith("PANIC"):
            what = "the reader panics: %s" % (a or "")[:120]
        elif ra["status"] == "OK":
            what = "the file is decoded as if it were PLAIN v1 data: %s rows delivered, no error" % ra["nexts"]
        elif ra["status"] == "ERR" and ra.get("recs", "").split() != " ".join(want_prefix).split():
            what = "an error is reported but the rows delivered before it (%s) are not the rows of the row groups before the unsupported chunk (%d)" % (ra["nexts"], len(want_prefix))
        if what:
            chk.fail("%s|%s|%s" % (sh.name, kind, "rep" if has_rep else ("opt" if has_def else "req")),
                     "file of %s with %s in row group %d, column %s, page %d: %s" % (sh.name, kind, g, ".".join(col[0]), p, what),
                     {"shape": sh.name, "shape_go": sh.go_source(sh.name), "choices": Fo.file_choice_tokens(fc), "batches": b, "file": C.hexs(files[i])[:30000]})
        else:
            refused += 1
    chk.coverage["files_with_one_unsupported_feature"] = sum(dist.values())
    chk.coverage["refused_with_error"] = refused
    chk.coverage["not_applicable_positions_skipped"] = skipped
    chk.coverage["model_vs_impl_mismatches"] = mism
    chk.coverage["input_distribution"] = dist
    ex = next((c for c in cases if c[4]), None)
    if ex:
        chk.sample({"shape": ex[1].name, "injection": ex[4][1:], "real_reader": (impl.get(ex[0]) or "")[:100], "model": (model.get(ex[0]) or "")[:100]})
    chk.coverage["rule"] = ("conformant foreign files (as in C04) over the portfolio shapes with exactly one unsupported feature injected at a random (row group, column, page): dictionary page first in the chunk with PLAIN_DICTIONARY data pages, "
                            "index page, DATA_PAGE_V2, value encodings 2/3/5/8, BIT_PACKED definition or repetition levels (only on columns that have them), codecs LZO/BROTLI/LZ4/ZSTD/LZ4_RAW. The real reader must return an error "
                            "(constructor or Error()), deliver only the rows of earlier row groups, and not panic; compared with the reader model. distinct = distinct files.")
    chk.coverage["explanation"] = "see coq/props/C18.v."
    chk.assumptions += ['for codecs the sandbox cannot produce (LZO, BROTLI, LZ4, ZSTD, LZ4_RAW) the payload is the uncompressed bytes: the reader must refuse on the codec id']
