"""C14 - excluded fields are inert and embedding equals inlining."""
import os
import random
import shutil

from . import common as C
from . import files as Fm
from . import godecl as G
from . import shapes as S


def bases():
    good = [S.person(), S.document(), S.opt3(), S.boolopt(), S.reqnest()]
    F = S.F
    good += [S.Shape("b_flat", [F("A", "req", "int32"), F("B", "opt", "string"), F("C", "rep", "float64"), F("D", "req", "bool")], desc="flat"),
             S.Shape("b_reuse_p", [F("G", "opt", [F("X", "req", "int32"), F("Y", "opt", "string")]), F("X", "req", "int32"), F("Y", "opt", "string"), F("Z", "req", "int64")], desc="a run of root fields equal to the struct of an earlier pointer field"),
             S.Shape("b_reuse_s", [F("A", "req", "bool"), F("L", "rep", [F("X", "req", "int32"), F("Y", "opt", "string")]), F("X", "req", "int32"), F("Y", "opt", "string")], desc="a run of root fields equal to the struct of an earlier slice field"),
             S.Shape("b_reuse_v", [F("X", "req", "float64"), F("Y", "rep", "int64"), F("G", "req", [F("X", "req", "float64"), F("Y", "rep", "int64")]), F("Z", "opt", "uint32")], desc="a run of root fields equal to the struct of a later value field"),
             S.Shape("b_nest", [F("A", "req", "int64"), F("G", "opt", [F("X", "req", "int32"), F("Y", "opt", "string")]), F("Z", "opt", "uint32")], desc="one optional group")]
    return good


def variants(rng, base, tier):
    decls = G.decls_of_shape(base)
    out = []
    names = [n for n, _ in decls]
    for fi, form in enumerate(G.EXCLUDED_FORMS):
        for tname in names:
            nf = len(dict(decls)[tname])
            for pos in sorted(set([0, nf // 2, nf])):
                fname = form["names"][0] if form["names"] else "embedded-" + form["type"][1]
                out.append(("excl:%s@%s[%d]" % (fname, tname, pos), G.decorate(decls, tname, pos, form), "excluded"))
    # an unexported field of a supported type, one per first letter a..z (and a non-ASCII lower-case letter)
    nroot = len(dict(decls)["Root"])
    for k, ch in enumerate("abcdefghijklmnopqrstuvwxyz"):
        ty = [("b", "int32"), ("p", ("b", "string")), ("s", ("b", "float64")), ("b", "bool")][k % 4]
        out.append(("excl:%sfield@Root[%d]" % (ch, k % (nroot + 1)), G.decorate(decls, "Root", k % (nroot + 1), {"names": [ch + "field"], "type": ty, "tag": None}), "unexported-letter"))
    # one declaration with an exported and an unexported name (`Mixed9, hidden9 int64`): parse.go skips declarations with
    # several names altogether; were they supported, only Mixed9 may become a column - never hidden9
    for pos in (0, nroot):
        mixed = {"names": ["Mixed9", "hidden9"], "type": ("b", "int64"), "tag": None}
        only = {"names": ["Mixed9"], "type": ("b", "int64"), "tag": None}
        out.append(("mixed:Mixed9,hidden9@Root[%d]" % pos, G.decorate(decls, "Root", pos, mixed), "mixed-multi-name"))
        out.append(("mixedalt:Mixed9@Root[%d]" % pos, G.decorate(decls, "Root", pos, only), "alt"))
    # other struct-tag keys (json, db, xml) around the parquet key of every field: nothing changes
    out.append(("tagkeys:all", G.with_other_tag_keys(decls), "other-tag-keys"))
    # two excluded fields at once
    out.append(("excl:two", G.decorate(G.decorate(decls, "Root", 0, G.EXCLUDED_FORMS[2]), "Root", 99, G.EXCLUDED_FORMS[3]), "excluded"))
    for tname in names:
        fs = dict(decls)[tname]
        for i in range(len(fs)):
            for k in range(1, len(fs) - i + 1):
                if tname != "Root" and not (i == 0 and k in (1, len(fs))):
                    continue
                kind = "embed-root" if tname == "Root" else "embed-in-group"
                out.append(("embed:%s[%d:%d]" % (tname, i, i + k), G.embed(decls, tname, "Emb", i, k), kind))
                reuse = G.embed_reuse(decls, tname, i, k)
                if reuse is not None:      # the embedded struct is a type the file already declares and uses as a named field
                    out.append(("embed-reuse:%s[%d:%d]" % (tname, i, i + k), reuse, "embed-reuse"))
    if tier == "quick":
        keep = [v for v in out if v[2] not in ("excluded", "embed-reuse", "other-tag-keys", "unexported-letter", "mixed-multi-name", "alt")]
        ex = [v for v in out if v[2] == "excluded"]
        rng.shuffle(ex)
        keep = rng.sample(keep, min(len(keep), 10))
        # every form of excluded field occurs at least once per base in the quick tier
        first = {}
        for v in ex:
            first.setdefault(v[0].split("@")[0], v)
        ex = list(first.values()) + [v for v in ex if v not in first.values()]
        out = ex[:max(22, len(first))] + keep + [v for v in out if v[2] in ("embed-reuse", "other-tag-keys", "unexported-letter", "mixed-multi-name", "alt")]
    return decls, out


def gen_code(src, workdir, tag):
    d = os.path.join(workdir, tag)
    os.makedirs(d, exist_ok=True)
    with open(os.path.join(d, "types.go"), "w") as f:
        f.write(src)
    rc, o, e = C.run([os.path.join(C.BIN, "parquetgen"), "-input", "types.go", "-type", "Root", "-package", "p"], cwd=d, timeout=120)
    try:
        return open(os.path.join(d, "parquet.go")).read() if rc == 0 else None
    except OSError:
        return None


def run(chk, st, tier):
    rng = random.Random(chk.seed)
    ok, msg = S.build_parquetgen()
    if not ok:
        chk.broke("build", "parquetgen does not build: " + msg)
        return
    workdir = os.path.join(C.WORK, "c14")
    shutil.rmtree(workdir, ignore_errors=True)
    os.makedirs(workdir)
    plan = []
    lines_impl, lines_model = [], []
    for b in bases():
        decls, vs = variants(rng, b, tier)
        plan.append((b, decls, vs))
    # A. column trees: real parse.Fields vs the model, and variant vs base
    k = 0
    idx = {}
    for b, decls, vs in plan:
        for label, d, kind in [("base", decls, "base")] + vs:
            ident = "t%d" % k
            idx[(b.name, label)] = ident
            lines_impl.append("%s parsefields %s" % (ident, G.go_source("p", d).encode().hex()))
            lines_model.append("%s parsefields %s" % (ident, G.decl_tokens(d)))
            k += 1
    env = dict(C.GOENV, VERIF_TMP=workdir)
    d0 = os.path.join(C.WORK, "cases")
    os.makedirs(d0, exist_ok=True)
    with open(os.path.join(d0, "C14-impl.txt"), "w") as f:
        f.write("\n".join(lines_impl) + "\n")
    rc, out, err = C.run([os.path.join(C.BIN, "corehar"), "run", os.path.join(d0, "C14-impl.txt")], env=env, timeout=900)
    impl = dict(l.split(" ", 1) for l in out.splitlines() if " " in l)
    _, model, _, e2 = C.run_cases(lines_model, "C14-model", impl_cmd=["true"])
    mism = 0
    tree_ok = code_ok = 0
    dist = {}
    runtime = []
    for b, decls, vs in plan:
        base_tree = impl.get(idx[(b.name, "base")])
        base_code = gen_code(G.go_source("p", decls), workdir, b.name + "-base")
        if model.get(idx[(b.name, "base")]) != base_tree:
            mism += 1
            chk.broke("correspondence:C14", "column tree of base %s: parse.Fields %s..., model %s..." % (b.name, (base_tree or "")[:80], (model.get(idx[(b.name, "base")]) or "")[:80]))
        for vi, (label, d, kind) in enumerate(vs):
            ident = idx[(b.name, label)]
            a, m = impl.get(ident), model.get(ident)
            chk.count((b.name, label))
            dist[kind] = dist.get(kind, 0) + 1
            if a != m:
                mism += 1
                if mism <= 3:
                    chk.broke("correspondence:C14", "column tree of %s/%s: parse.Fields %s..., model %s..." % (b.name, label, (a or "")[:80], (m or "")[:80]))
            src = G.go_source("p", d)
            if kind == "alt":
                continue                                  # only the reference of a mixed-multi-name variant
            if kind == "mixed-multi-name":
                alt = impl.get(idx[(b.name, label.replace("mixed:Mixed9,hidden9", "mixedalt:Mixed9"))])
                if a != base_tree and a != alt:
                    chk.fail("tree|%s|mixed-multi-name" % b.name, "%s with `Mixed9, hidden9 int64`: the columns parquetgen sees are neither the undecorated struct's nor those with Mixed9 alone (%s...)" % (b.name, (a or "")[:120]),
                             {"go": src, "base_go": G.go_source("p", decls)})
                else:
                    tree_ok += 1
                continue
            if a != base_tree:
                chk.fail("tree|%s|%s" % (b.name, label.split("@")[0].split("[")[0]), "%s with %s: the columns parquetgen sees differ from the undecorated struct's (%s... vs %s...)" % (b.name, label, (a or "")[:100], (base_tree or "")[:100]),
                         {"go": src, "base_go": G.go_source("p", decls)})
                continue
            tree_ok += 1
            code = gen_code(src, workdir, "%s-v%d" % (b.name, vi))
            if code != base_code:
                chk.fail("code|%s|%s" % (b.name, label.split("@")[0].split("[")[0]), "%s with %s: generated code differs from the code generated for the undecorated struct" % (b.name, label), {"go": src})
                continue
            code_ok += 1
            runtime.append((b, label, d, kind))
    # C. the variants as programs: same bytes for the same values, excluded fields stay zero
    rng.shuffle(runtime)
    letters = [v for v in runtime if v[3] == "unexported-letter"]
    runtime = [v for v in runtime if v[3] != "unexported-letter"] + letters[:3]      # tree and code identity decide the letter variants; three of them also run
    runtime.sort(key=lambda v: v[3] not in ("embed-reuse", "other-tag-keys"))      # the few reuse / tag-key variants always run
    chosen = runtime[:40 if tier == "quick" else 400]
    shapes = []
    for b, decls, vs in plan:
        shapes.append(b)
    vshapes = []
    for i, (b, label, d, kind) in enumerate(chosen):
        vshapes.append((S.SrcShape("v%03d" % i, (lambda pkg, d=d: G.go_source(pkg, d)), b, desc=label), b, label, kind))
    status, runner = S.build_set("c14", shapes + [v[0] for v in vshapes])
    files_ok = 0
    if runner:
        good = [s for s in shapes + [v[0] for v in vshapes] if status[s.name]["status"] == "ok"]
        ws_by_base = {b.name: Fm.gen_workloads(rng, [b], 3, maxrecs=6, pages=(1, 2, 1000)) for b in shapes}
        lines = Fm.shape_lines(good)
        for b in shapes:
            for wi, w in enumerate(ws_by_base[b.name]):
                lines.append(w.line("b_%s_%d" % (b.name, wi)))
        for vs_, b, label, kind in vshapes:
            if status[vs_.name]["status"] != "ok":
                continue
            for wi, w in enumerate(ws_by_base[b.name]):
                w2 = Fm.Workload(vs_, w.codec, w.max, w.ops)
                lines.append(w2.line("v_%s_%d" % (vs_.name, wi)))
        path = os.path.join(d0, "C14-run.txt")
        with open(path, "w") as f:
            f.write("\n".join(lines) + "\n")
        rc, out, err = C.run([runner, path], env=dict(C.GOENV, VERIF_JUNK="1"), timeout=900)
        res = dict(l.split(" ", 1) for l in out.splitlines() if " " in l)
        rlines = Fm.shape_lines(good)
        expect = {}
        for vs_, b, label, kind in vshapes:
            st_ = status[vs_.name]["status"]
            if st_ != "ok":
                cls = "embed-in-group" if kind == "embed-in-group" else kind
                chk.fail("C14|%s|%s" % (cls, st_), "%s with %s: generated code: %s %s" % (b.name, label, st_, status[vs_.name]["msg"][:200]), {"go": vs_.go_source("p")})
                continue
            for wi, w in enumerate(ws_by_base[b.name]):
                a, bb = res.get("v_%s_%d" % (vs_.name, wi)), res.get("b_%s_%d" % (b.name, wi))
                if a != bb or a is None:
                    chk.fail("bytes|%s|%s" % (b.name, label.split("@")[0].split("[")[0]), "%s with %s (excluded fields filled with data): the file differs from the undecorated struct's file for the same values" % (b.name, label),
                             {"go": vs_.go_source("p"), "workload": w.replay()})
                else:
                    files_ok += 1
                    pw = Fm.parse_write(a)
                    if pw and wi == 0:
                        rid = "r_%s" % vs_.name
                        rlines.append("%s read %s %s plain" % (rid, vs_.name, C.hexs(b"".join(pw[1]))))
                        expect[rid] = (vs_, b, label, [x for bt in w.batches() for x in bt])
        rpath = os.path.join(d0, "C14-read.txt")
        with open(rpath, "w") as f:
            f.write("\n".join(rlines) + "\n")
        rc, out, err = C.run([runner, rpath], timeout=900)
        rres = dict(l.split(" ", 1) for l in out.splitlines() if " " in l)
        for rid, (vs_, b, label, want) in expect.items():
            ra = Fm.parse_read(rres.get(rid))
            if not ra or ra["status"] != "OK" or ra.get("recs", "").split() != " ".join(want).split():
                chk.fail("read|%s|%s" % (b.name, label.split("@")[0].split("[")[0]), "%s with %s: reading back gives %s" % (b.name, label, (rres.get(rid) or "")[:100]), {"go": vs_.go_source("p")})
            elif ra.get("excl") != "0":
                chk.fail("zero|%s|%s" % (b.name, label.split("@")[0].split("[")[0]), "%s with %s: an excluded field is not zero after reading into a fresh struct" % (b.name, label), {"go": vs_.go_source("p")})
    else:
        chk.broke("build", "runner for the C14 variants does not build")
    shutil.rmtree(workdir, ignore_errors=True)
    chk.coverage["variants"] = sum(dist.values())
    chk.coverage["variants_same_column_tree"] = tree_ok
    chk.coverage["variants_same_generated_code"] = code_ok
    chk.coverage["variant_programs_run"] = len(chosen)
    chk.coverage["files_byte_identical"] = files_ok
    chk.coverage["model_vs_impl_mismatches"] = mism
    chk.coverage["input_distribution"] = dist
    chk.sample({"base": plan[0][0].name, "variant": plan[0][2][0][0], "go": G.go_source("p", plan[0][2][0][1])[:300]})
    chk.coverage["rule"] = ("10 base structs x insertions of excluded fields (unexported with every first letter a..z, underscore, anonymous struct with exported inner fields, dash-tagged struct/func/map/chan/pointer/slice/interface, dash tag before/after json/xml keys) and other struct-tag keys around every field's parquet key at start/middle/end of every declaration, "
                            "and replacements of runs of fields by an embedded struct (every run at the root; whole/first field in nested groups; also by an already declared struct that an earlier or later named field uses). Per variant: column tree of the real parse.Fields = base's tree = model's tree; "
                            "parquetgen output byte-identical to the base's; for a sample the variant is compiled and run with the excluded fields filled with data: files byte-identical, excluded fields zero after reading. distinct = distinct variants.")
    chk.coverage["explanation"] = "decorate_inert / embed_inline (coq/props/C14.v) prove the column tree unchanged for every insertion/replacement in the parse model."
    chk.assumptions += ['parquetgen output is a function of the parse tree only (gen.FromStruct builds its template input from parse.Fields result, type and package names)']
