"""C04 - the reader decodes every conformant file of the supported subset."""
import random

from . import common as C
from . import files as Fm
from . import foreign as Fo
from . import shapes as S


def run(chk, st, tier):
    rng = random.Random(chk.seed)
    shapes, runner = Fm.get_portfolio(chk)
    if not runner:
        return
    n = 300 if tier == "quick" else 6000
    cases = []
    for k in range(n):
        sh = shapes[k % len(shapes)]
        cases.append(("f%d" % k, sh, Fo.gen_file_choice(rng), Fo.gen_batches(rng, sh, maxrecs=9 if sh.name != "flat24" else 5, allow_empty=True)))
    # long level streams: bit-packed runs of 64..70 groups and long RLE runs need pages with hundreds of entries
    small = [s for s in shapes if s.name in ("opt3", "boolopt")] or shapes[:1]
    for k in range(8 if tier == "quick" else 80):
        sh = small[k % len(small)]
        nrec = rng.choice((520, 600, 700, 1100))
        full = S.gen_value(rng, sh.model_fields(), maxlist=2, pnull=0.0, extreme=0.3)
        empty = S.gen_value(rng, sh.model_fields(), maxlist=0, pnull=1.0, extreme=0.3)
        kind = k % 4
        if kind == 0:
            recs = [full if i % 2 else empty for i in range(nrec)]          # no runs of equal levels: all bit-packed
            ch = [2 * g + 1 for g in (69, 63, 64, 62)]
        elif kind == 1:
            recs = [full] * nrec                                            # one long run
            ch = [2 * 9999, 2 * 63, 2 * 64]
        elif kind == 2:
            recs = [S.gen_value(rng, sh.model_fields(), maxlist=2, extreme=0.3) for _ in range(nrec)]
            ch = [rng.choice((139, 127, 129, 2 * rng.randrange(200))) for _ in range(10)]
        else:
            recs = [full] * 64 + [empty] * 64 + [full] * 128 + [empty] * (nrec - 256)
            ch = [2 * 63, 2 * 127, 2 * 63, 131, 2 * 500]
        fc = {"cols": [{"codec": rng.randrange(3), "sizes": [rng.choice((1000, 600, 64))], "reps": ch, "defs": ch, "pad": rng.choice((0, 1, 3)),
                        "stats": rng.randrange(3), "crc": 0, "fok": 1, "encstats": 0}],
              "created_by": None, "kv": 0, "bsu": 0, "inject": None}
        cases.append(("g%d" % k, sh, fc, [recs]))
    # pages beyond 32 KiB (window of deflate, read buffers): any page split is a legal writer choice
    fn = next((s for s in shapes if s.name == "flatnum"), None)
    if fn:
        for k, codec in enumerate((2, 1) if tier == "quick" else (2, 1, 0, 2)):
            nrec = 6000 if k < 3 else 8192
            recs = ["G 2 %s %s" % (S.tok_num((i * 2654435761) % (1 << 40)), S.tok_num(4607182418800017408 + (i * 40503) % (1 << 30))) for i in range(nrec)]
            fc = {"cols": [{"codec": codec, "sizes": [nrec if k < 3 else 4096], "reps": [2 * 9999], "defs": [2 * 9999], "pad": 0, "stats": k % 3, "crc": 0, "fok": 1, "encstats": 0}],
                  "created_by": None, "kv": 0, "bsu": 0, "inject": None}
            cases.append(("h%d" % k, fn, fc, [recs]))
    files, e2 = Fo.make_files(shapes, cases, "C04-write")
    if e2[0] != 0:
        chk.broke("machinery:C04", "foreign writer failed: %s" % (e2[1],))
    lines = Fm.shape_lines(shapes)
    for i, sh, fc, b in cases:
        if i in files:
            lines.append("%s read %s %s plain" % (i, sh.name, C.hexs(files[i])))
            lines.append("v%s validate 1 %s" % (i, C.hexs(files[i])))
    impl, model, e1, e2 = C.run_cases(lines, "C04-read", impl_cmd=[runner])
    ok = 0
    mism = 0
    dist = {"files_with_an_empty_row_group": sum(1 for c in cases if any(len(b) == 0 for b in c[3])), "codec0": 0, "codec1": 0, "codec2": 0, "stats0": 0, "stats1": 0, "stats2": 0, "bitpacked>=64groups": 0, "pad!=0": 0}
    for i, sh, fc, b in cases:
        if i not in files:
            chk.broke("machinery:C04", "no file for case %s" % i)
            continue
        for c in fc["cols"]:
            dist["codec%d" % c["codec"]] += 1
            dist["stats%d" % c["stats"]] += 1
            dist["pad!=0"] += 1 if c["pad"] else 0
            dist["bitpacked>=64groups"] += 1 if any(x % 2 == 1 and (x // 2) % 70 >= 63 for x in c["reps"] + c["defs"]) else 0
        want = [x for batch in b for x in batch]
        a = impl.get(i)
        m = model.get(i)
        v = Fm.parse_validate(model.get("v" + i))
        chk.count((sh.name, files[i]))
        ra = Fm.parse_read(a)
        desc = {"shape": sh.name, "row_groups": [len(x) for x in b], "choices": Fo.file_choice_tokens(fc)[:300]}
        if v is None or not v["valid"] or v.get("recs", "").split() != " ".join(want).split():
            # the independent validator must accept the foreign writer's file and find the records: otherwise the case is not a conformant file
            chk.broke("oracle:C04", "foreign file of %s is not accepted by the validator: %s" % (desc, v and (v.get("error") or "records differ")))
            continue
        if Fm.strip_read(a) != m:
            mism += 1
            if mism <= 3:
                chk.broke("correspondence:C04", "%s: real reader %s..., reader model %s..." % (desc, (a or "")[:80], (m or "")[:80]))
        what = None
        if ra is None or (a or "").startswith("PANIC"):
            what = "the reader panics: %s" % (a or "")[:120]
        elif ra["status"] != "OK":
            what = "the reader reports %s" % ra["status"]
        elif int(ra["rows"]) != len(want) or int(ra["nexts"]) != len(want) or ra.get("recs", "").split() != " ".join(want).split():
            got, exp = ra.get("recs", "").split(), " ".join(want).split()
            j = next((k for k, (x, y) in enumerate(zip(got, exp)) if x != y), min(len(got), len(exp)))
            what = "wrong rows: rows=%s nexts=%s (%d expected); first difference at token %d: read %s, file holds %s" % (ra["rows"], ra["nexts"], len(want), j, " ".join(got[j:j + 4]), " ".join(exp[j:j + 4]))
        if what:
            chk.fail("%s|%s" % (sh.name, Fo.file_choice_tokens(fc)[:160]), "conformant file (%s): %s" % (desc, what),
                     {"shape": sh.name, "shape_go": sh.go_source(sh.name), "choices": Fo.file_choice_tokens(fc), "batches": b, "file": C.hexs(files[i])[:30000]})
        else:
            ok += 1
    chk.coverage["files"] = len(cases)
    chk.coverage["files_read_correctly"] = ok
    chk.coverage["model_vs_impl_mismatches"] = mism
    chk.coverage["input_distribution"] = dist
    i0 = cases[0]
    chk.sample({"shape": i0[1].name, "choices": Fo.file_choice_tokens(i0[2])[:200], "row_groups": [len(x) for x in i0[3]], "real_reader": (impl.get(i0[0]) or "")[:100]})
    chk.coverage["rule"] = ("files written by the extracted independent writer Foreign.foreign_file (specification RLE encoder, thrift model, real snappy/gzip) from random choices: run segmentation of every level stream "
                            "(RLE runs of any length >= 1, bit-packed runs of 1..70 groups, any padding value), independent page splits per column at record boundaries, per-column codec, statistics absent / current / also deprecated fields, "
                            "CRC, created_by, key/value metadata, encoding_stats, three file_offset conventions, both total_byte_size conventions, row groups with no rows; over the portfolio shapes; plus numeric files with one 6000-record page per column (> 32 KiB) per codec. Each file must be accepted by the validator (so it is conformant), "
                            "then is read by the real generated reader (oracle: exactly the records) and by the reader model. distinct = distinct files.")
    chk.coverage["explanation"] = "see coq/props/C04.v."
