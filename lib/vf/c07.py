"""C07 - level streams are valid RLE/bit-packed hybrid; encode and decode are inverses."""
import itertools
import os
import random

from . import common as C


# ---- an independent (python) writer of well-formed hybrid streams -----------

def uleb(n):
    out = bytearray()
    while n >= 128:
        out.append((n & 127) | 128)
        n >>= 7
    out.append(n)
    return bytes(out)


def pack_groups(w, vals):
    word = 0
    for i, v in enumerate(vals):
        word |= v << (w * i)
    return word.to_bytes(w * len(vals) // 8, "little")


def encode_runs(w, runs):
    body = bytearray()
    for r in runs:
        if r[0] == "R":
            body += uleb(r[1] << 1) + bytes([r[2]])
        else:
            body += uleb((len(r[1]) // 8) << 1 | 1) + pack_groups(w, r[1])
    return len(body).to_bytes(4, "little") + bytes(body)


def runs_values(runs):
    out = []
    for r in runs:
        out += [r[2]] * r[1] if r[0] == "R" else list(r[1])
    return out


# ---- generators --------------------------------------------------------------

def level_sequences(rng, tier):
    """(w, levels): exhaustive short sequences per width, then run-structured ones
    around the 8-value, 63-group and multi-byte-header boundaries."""
    bounds = {1: 12, 2: 6, 3: 4, 4: 3} if tier == "quick" else {1: 16, 2: 8, 3: 5, 4: 4}
    for w, maxlen in bounds.items():
        for n in range(maxlen + 1):
            for t in itertools.product(range(1 << w), repeat=n):
                yield w, list(t), "exhaustive"
    nstruct = 400 if tier == "quick" else 4000
    lens = list(range(1, 21)) + [62, 63, 64, 65, 66, 127, 128, 129, 503, 504, 505, 511, 512, 513, 1000, 8 * 63 + 7]
    for _ in range(nstruct):
        w = rng.choice((1, 2, 3, 4))
        seq = []
        for _ in range(rng.randrange(1, 7)):
            kind = rng.random()
            if kind < 0.5:
                seq += [rng.randrange(1 << w)] * rng.choice(lens)
            else:
                seq += [rng.randrange(1 << w) for _ in range(rng.choice(lens))]
        yield w, seq, "run-structured"
    # long repeats: 2^7*k and 2^14 +- 1 (multi-byte RLE headers), a 64th group
    for w in (1, 2, 3, 4):
        for n in (2 ** 7 * 3, 2 ** 14 - 1, 2 ** 14, 2 ** 14 + 1, 70000):
            yield w, [(1 << w) - 1] * n, "long-repeat"
            yield w, [1] * 5 + [0] * n + [1], "long-repeat"
        alt = [i % 2 for i in range(8 * 64 + 3)]
        yield w, alt, "64-groups"
        yield w, alt + [1] * 40 + alt, "64-groups"


def run_lists(rng, tier):
    """(w, runs): segmentations of short sequences into <= 4 runs, then random long ones."""
    n = 1500 if tier == "quick" else 20000
    for _ in range(n):
        w = rng.choice((1, 2, 3, 4))
        runs = []
        for _ in range(rng.randrange(0, 5)):
            if rng.random() < 0.5:
                c = rng.choice([1, 2, 3, 7, 8, 9, 63, 64, 127, 128, 129, 200, 2 ** 14 - 1, 2 ** 14, 2 ** 14 + 5, rng.randrange(1, 40)])
                runs.append(("R", c, rng.randrange(1 << w)))
            else:
                g = rng.choice([1, 1, 2, 3, 8, 62, 63, 64, 65, 70, 127, 128, rng.randrange(1, 12)])
                runs.append(("B", [rng.randrange(1 << w) for _ in range(8 * g)]))
        yield w, runs


def malformed(rng, n):
    """Truncated payloads, short/over-long length prefixes, zero-length runs.  Every
    header is a single byte (< 128) and every length prefix is small, so no
    decoder is asked to allocate a hostile count."""
    for _ in range(n):
        w = rng.choice((1, 2, 3, 4))
        k = rng.random()
        if k < 0.4:
            s = encode_runs(w, [("B", [1] * 16), ("R", 9, 1)])
            yield w, s[:rng.randrange(len(s))]
        else:
            body = bytes(rng.randrange(128) for _ in range(rng.randrange(0, 10)))
            yield w, rng.choice([0, 1, len(body), len(body), len(body) + 3]).to_bytes(4, "little") + body


def parse_runs(s):
    """RUNS k (R c v | B g vals...)* REST n  -> (runs, rest)"""
    t = s.split()
    if not t or t[0] != "RUNS":
        return None
    k = int(t[1])
    i = 2
    runs = []
    for _ in range(k):
        if t[i] == "R":
            runs.append(("R", int(t[i + 1].lstrip("x"), 16) if t[i + 1].startswith("x") else int(t[i + 1]), int(t[i + 2])))
            i += 3
        else:
            g = int(t[i + 1])
            runs.append(("B", [int(x) for x in t[i + 2:i + 2 + 8 * g]]))
            i += 2 + 8 * g
    assert t[i] == "REST"
    return runs, int(t[i + 1])


def run(chk, st, tier):
    rng = random.Random(chk.seed)
    # ---- encoder: implementation vs model, then the spec decoder on the implementation's bytes
    enc_cases = list(level_sequences(rng, tier))
    lines = ["e%d rleenc %d %d %s" % (k, w, len(ls), " ".join(map(str, ls))) for k, (w, ls, _) in enumerate(enc_cases)]
    impl, model, e1, e2 = C.run_cases(lines, "C07enc")
    if e1[0] != 0 or e2[0] != 0:
        chk.broke("correspondence:C07", "harness rc=%s %s / driver rc=%s %s" % (e1[0], e1[1], e2[0], e2[1]))
    dist = {}
    mism = 0
    olines = []
    for k, (w, ls, cls) in enumerate(enc_cases):
        dist[cls] = dist.get(cls, 0) + 1
        a, b = impl.get("e%d" % k), model.get("e%d" % k)
        chk.count(("enc", w, tuple(ls)), nontrivial=len(ls) > 0)
        if a != b or a is None:
            mism += 1
            if mism <= 3:
                chk.broke("correspondence:C07", "rle encode w=%d levels=%s...: implementation=%s model=%s" % (w, ls[:40], (a or "")[:80], (b or "")[:80]))
        if a is not None and not a.startswith("PANIC"):
            olines.append("o%d specdec %d %s" % (k, w, a))
        elif a is not None:
            chk.fail("enc-panic|%d|%s" % (w, ls[:64]), "RLE encoder panics on width %d levels %s: %s" % (w, ls[:64], a), {"kind": "rleenc", "width": w, "levels": ls})
    _, spec, _, e2 = C.run_cases(olines, "C07oracle", impl_cmd=["true"])
    ok_oracle = 0
    for k, (w, ls, cls) in enumerate(enc_cases):
        s = spec.get("o%d" % k)
        if s is None:
            continue
        what = None
        pr = parse_runs(s) if s != "NONE" else None
        if pr is None:
            what = "is not a well-formed hybrid stream for the specification decoder"
        else:
            runs, rest = pr
            vals = runs_values(runs)
            if rest != 0:
                what = "length prefix does not cover the stream (%d bytes left over)" % rest
            elif vals[:len(ls)] != ls:
                what = "decodes to different values %s..." % vals[:40]
            elif len(vals) - len(ls) >= 8 or any(vals[len(ls):]):
                what = "has %d padding values (must be < 8 zeros)" % (len(vals) - len(ls))
        if what:
            chk.fail("enc|%d|%s" % (w, ls[:64]), "RLE encoding of width %d levels %s (len %d) = %s %s" % (w, ls[:64], len(ls), impl.get("e%d" % k)[:120], what),
                     {"kind": "rleenc", "width": w, "levels": ls, "bytes": impl.get("e%d" % k)})
        else:
            ok_oracle += 1
    # ---- decoder: every well-formed encoding, written by the python spec writer
    dec_cases = list(run_lists(rng, tier))
    # all segmentations of short sequences into runs (widths 1 and 2)
    for w in (1, 2):
        for n8 in (1, 2, 3):
            vals = [rng.randrange(1 << w) for _ in range(8 * n8)]
            for cut in range(n8 + 1):
                runs = []
                if cut:
                    runs.append(("B", vals[:8 * cut]))
                for v in vals[8 * cut:]:
                    runs.append(("R", 1, v))
                dec_cases.append((w, runs))
    dlines = []
    for k, (w, runs) in enumerate(dec_cases):
        dlines.append("d%d rledec %d %s" % (k, w, encode_runs(w, runs).hex()))
    impl_d, model_d, e1, e2 = C.run_cases(dlines, "C07dec")
    dmism = 0
    for k, (w, runs) in enumerate(dec_cases):
        a, b = impl_d.get("d%d" % k), model_d.get("d%d" % k)
        data = encode_runs(w, runs)
        vals = runs_values(runs)
        chk.count(("dec", w, data), nontrivial=len(runs) > 0)
        kinds = "".join(r[0] for r in runs)
        dist["dec:" + kinds[:4]] = dist.get("dec:" + kinds[:4], 0) + 1
        if a != b or a is None:
            dmism += 1
            if dmism <= 3:
                chk.broke("correspondence:C07", "rle decode w=%d stream=%s: implementation=%s model=%s" % (w, data.hex()[:80], (a or "")[:80], (b or "")[:80]))
        want = "OK %d %d%s" % (len(data), len(vals), "".join(" %d" % v for v in vals))
        if a != want:
            desc = [(r[0], r[1], r[2]) if r[0] == "R" else ("B", len(r[1]) // 8) for r in runs]
            chk.fail("dec|%d|%s" % (w, desc), "decoder on well-formed stream (width %d, runs %s, %d bytes) returns %s, expected %d values and %d bytes consumed"
                     % (w, desc, len(data), (a or "")[:100], len(vals), len(data)), {"kind": "rledec", "width": w, "stream": data.hex(), "runs": desc})
    # ---- malformed streams: model fidelity only, never a verdict on the property
    mal = list(malformed(rng, 300 if tier == "quick" else 3000))
    mlines = ["m%d rledec %d %s" % (k, w, C.hexs(s)) for k, (w, s) in enumerate(mal)]
    impl_m, model_m, _, _ = C.run_cases(mlines, "C07mal")
    mal_diff = sum(1 for k in range(len(mal)) if impl_m.get("m%d" % k) != model_m.get("m%d" % k))
    mal_kinds = {}
    for k in range(len(mal)):
        r = (impl_m.get("m%d" % k) or "?").split()[0]
        mal_kinds[r] = mal_kinds.get(r, 0) + 1
    chk.coverage["malformed_streams_diagnostic"] = {"cases": len(mal), "model_vs_impl_differences": mal_diff, "implementation_outcomes": mal_kinds,
                                                   "note": "no property constrains the decoder on malformed level streams; differences here are reported, not a verdict"}
    chk.coverage["input_distribution"] = dist
    chk.coverage["encoder_cases"] = len(enc_cases)
    chk.coverage["encoder_outputs_accepted_by_spec_decoder"] = ok_oracle
    chk.coverage["decoder_cases"] = len(dec_cases)
    chk.coverage["model_vs_impl_mismatches"] = mism + dmism
    chk.sample({"case": lines[300][:200], "implementation": impl.get("e300"), "model": model.get("e300"), "spec_decoder": spec.get("o300")})
    chk.sample({"case": dlines[7][:200], "implementation": (impl_d.get("d7") or "")[:200], "model": (model_d.get("d7") or "")[:200]})
    chk.coverage["rule"] = ("encoder: every level sequence up to the per-width length bound (exhaustive), run-structured sequences around the 8-value, "
                            "63/64-group and multi-byte-header boundaries, long repeats; each encoded by implementation (hook VerifRLEEncode) and model, "
                            "and the implementation's bytes decoded by the extracted specification decoder. decoder: streams written by an independent python "
                            "spec writer from random run lists (RLE counts 1..2^14+5, bit-packed runs of 1..128 groups); implementation (hook VerifRLEDecode) vs model vs expected values. "
                            "distinct = distinct (direction,width,input); non-trivial = non-empty.")
    chk.coverage["explanation"] = ("rle_encode_ok, rle_read_ok, hybrid_decode_encode (coq/props/C07.v) are proved for all level sequences / all well-formed run lists about the "
                                   "hand model of rle.go; the runs above tie that model to the code.")
    chk.assumptions += ["hooks parquet.VerifRLEEncode/VerifRLEDecode (build tag verif) call internal/rle exactly as writeLevels/readLevels do",
                        "bit-packing inside the RLE model is the translated bitpack.go tables (C17)"]


def replay(chk, st, data):
    if data.get("kind") == "rleenc":
        w, ls = int(data["width"]), list(data["levels"])
        lines = ["e rleenc %d %d %s" % (w, len(ls), " ".join(map(str, ls)))]
        impl, model, _, _ = C.run_cases(lines, "C07-replay")
        a = impl.get("e")
        _, spec, _, _ = C.run_cases(["o specdec %d %s" % (w, a)], "C07-replay-o", impl_cmd=["true"])
        pr = parse_runs(spec.get("o")) if spec.get("o") not in (None, "NONE") else None
        ok = pr is not None and pr[1] == 0 and runs_values(pr[0])[:len(ls)] == ls and len(runs_values(pr[0])) - len(ls) < 8
        chk.count(("replay", w, tuple(ls)))
        chk.count(("replay-marker",))
        if not ok:
            chk.fail("replay-enc", "RLE encoding of width %d levels (len %d) = %s is not a well-formed stream of the levels" % (w, len(ls), (a or "")[:100]), data)
        elif a != model.get("e"):
            chk.broke("correspondence:C07", "replayed encoding differs from the model")
        chk.sample({"replayed": lines[0][:200], "implementation": a})
    else:
        w, stream = int(data["width"]), data["stream"]
        impl, model, _, _ = C.run_cases(["d rledec %d %s" % (w, stream)], "C07-replay")
        a = impl.get("d")
        chk.count(("replay", w, stream))
        chk.count(("replay-marker",))
        _, spec, _, _ = C.run_cases(["o specdec %d %s" % (w, stream)], "C07-replay-o", impl_cmd=["true"])
        pr = parse_runs(spec.get("o")) if spec.get("o") not in (None, "NONE") else None
        if pr is not None:
            vals = runs_values(pr[0])
            want = "OK %d %d%s" % (len(stream) // 2, len(vals), "".join(" %d" % v for v in vals))
            if a != want:
                chk.fail("replay-dec", "decoder on a well-formed stream returns %s" % (a or "")[:100], data)
        chk.sample({"replayed": stream[:200], "implementation": (a or "")[:100]})
    chk.coverage["rule"] = "replay of one stored level sequence / stream"
