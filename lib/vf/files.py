"""Shared machinery of the file-level properties: workloads (shape, codec, page
size, Add/Write history), running them through the real generated writer and
reader and through the extracted model, and the independent validator."""
import os
import random
import re

from . import common as C
from . import shapes as S


class Workload:
    def __init__(self, shape, codec, maxpage, ops, tag=""):
        self.shape, self.codec, self.max, self.ops, self.tag = shape, codec, maxpage, ops, tag   # ops: "W" or record token string

    def batches(self):
        out, cur = [], []
        for o in self.ops:
            if o == "W":
                out.append(cur)
                cur = []
            else:
                cur.append(o)
        return [b for b in out if b]

    def history(self):
        return "".join("W" if o == "W" else "A" for o in self.ops)

    def history_short(self):
        h = self.history()
        if len(h) <= 64:
            return h
        import itertools
        return "".join("%s*%d" % (k, n) if n > 3 else k * n for k, n in ((k, len(list(g))) for k, g in itertools.groupby(h)))

    def line(self, ident, failat=-1, mutate=0):
        ops = " ".join("W" if o == "W" else "A " + o for o in self.ops)
        return "%s write %s %d %d %d %d %d %s" % (ident, self.shape.name, self.codec, self.max, failat, mutate, len(self.ops), ops)

    def describe(self):
        return {"shape": self.shape.name, "codec": ["uncompressed", "snappy", "gzip"][self.codec], "page_size": self.max,
                "history": self.history_short(), "records": sum(1 for o in self.ops if o != "W"), "tag": self.tag}

    def replay(self):
        return {"shape": self.shape.name, "shape_go": self.shape.go_source(self.shape.name), "codec": self.codec, "page_size": self.max,
                "ops": self.ops}


def get_portfolio(chk):
    """build the portfolio with parquetgen from /repo's working tree"""
    shapes = S.portfolio()
    st, runner = S.build_set("portfolio", shapes)
    good = [s for s in shapes if st[s.name]["status"] == "ok"]
    for s in shapes:
        if st[s.name]["status"] != "ok":
            # a portfolio shape that stops compiling or generating is a C05-class failure of the code under test
            chk.fail("portfolio|%s|%s" % (s.name, st[s.name]["status"]),
                     "portfolio shape %s (%s): %s %s" % (s.name, s.desc, st[s.name]["status"], st[s.name]["msg"][:300]),
                     {"shape": s.name, "go": s.go_source(s.name), "status": st[s.name]})
    if runner is None:
        chk.broke("build", "runner for the portfolio does not build")
    return good, runner


def shape_lines(shapes):
    return ["- shape %s %s" % (s.name, s.ty_tokens()) for s in shapes]


def parse_write(res):
    """OK flags n hex... -> (flags, [bytes])"""
    if res is None:
        return None
    t = res.split()
    if not t or t[0] != "OK":
        return None
    n = int(t[2])
    return t[1], [bytes.fromhex(x) if x != "-" else b"" for x in t[3:3 + n]]


def strip_read(res):
    return re.sub(r" ops=\d+ stable=\d excl=\d", "", res) if res else res


def parse_read(res):
    """status rows= nexts= [ops= stable= excl=] recs n tokens... -> dict"""
    if res is None:
        return None
    t = res.split(" recs ", 1)
    head = t[0].split()
    d = {"status": head[0]}
    for h in head[1:]:
        if "=" in h:
            k, v = h.split("=")
            d[k] = v
    if len(t) > 1:
        rest = t[1].split(" ", 1)
        d["nrecs"] = int(rest[0])
        d["recs"] = rest[1] if len(rest) > 1 else ""
    return d


def parse_validate(res):
    if res is None:
        return None
    if not res.startswith("VALID"):
        return {"valid": False, "error": res}
    t = res.split(" recs ", 1)
    d = {"valid": True}
    for h in t[0].split()[1:]:
        k, v = h.split("=")
        d[k] = v
    d["rows"] = [int(x) for x in d.get("rows", "").split(",") if x]
    if len(t) > 1:
        body = t[1]
        cols = None
        if " RG" in body:
            body, cols = body.split(" RG", 1)
            cols = "RG" + cols
        rest = body.split(" ", 1)
        d["nrecs"] = int(rest[0])
        d["recs"] = rest[1].strip() if len(rest) > 1 else ""
        d["cols"] = cols
    return d


def exercise(chk, runner, shapes, workloads, name, validate_level=1, read=True, mutate=False):
    """writes (impl vs model), then validator on the real bytes and reads (impl vs model)."""
    lines = shape_lines(shapes)
    for i, w in enumerate(workloads):
        lines.append(w.line("w%d" % i))
        if mutate:
            lines.append(w.line("m%d" % i, mutate=1))
    impl, model, e1, e2 = C.run_cases(lines, name + "-write", impl_cmd=[runner])
    if e1[0] != 0 or e2[0] != 0:
        chk.broke("correspondence:" + chk.id, "write pass: harness rc=%s %s / driver rc=%s %s" % (e1[0], e1[1], e2[0], e2[1]))
    out = []
    lines2 = shape_lines(shapes)
    for i, w in enumerate(workloads):
        a, b = impl.get("w%d" % i), model.get("w%d" % i)
        r = {"w": w, "impl_write": a, "model_write": b, "write_agree": a == b and a is not None}
        pw = parse_write(a)
        r["flags"], r["writes"] = pw if pw else (None, None)
        r["file"] = b"".join(r["writes"]) if pw else None
        if mutate:
            r["mutated_write"] = impl.get("m%d" % i)
        out.append(r)
        if r["file"] is not None:
            lines2.append("v%d validate %d %s" % (i, validate_level, C.hexs(r["file"])))
            if read:
                lines2.append("r%d read %s %s plain" % (i, w.shape.name, C.hexs(r["file"])))
    impl2, model2, e1, e2 = C.run_cases(lines2, name + "-read", impl_cmd=[runner])
    if e1[0] != 0 or e2[0] != 0:
        chk.broke("correspondence:" + chk.id, "read pass: harness rc=%s %s / driver rc=%s %s" % (e1[0], e1[1], e2[0], e2[1]))
    for i, r in enumerate(out):
        r["validate"] = parse_validate(model2.get("v%d" % i))
        r["validate_raw"] = model2.get("v%d" % i)
        if read:
            r["read_impl_raw"] = impl2.get("r%d" % i)
            r["read_impl"] = parse_read(impl2.get("r%d" % i))
            r["read_model_raw"] = model2.get("r%d" % i)
            r["read_agree"] = strip_read(impl2.get("r%d" % i)) == model2.get("r%d" % i) and model2.get("r%d" % i) is not None
    return out


def correspondence(chk, results, what=("write", "read")):
    """report model/implementation disagreements (first three in detail)"""
    n = 0
    for r in results:
        for k in what:
            if k + "_agree" in r and not r[k + "_agree"]:
                n += 1
                if n <= 3:
                    a = r.get("impl_write") if k == "write" else r.get("read_impl_raw")
                    b = r.get("model_write") if k == "write" else r.get("read_model_raw")
                    where = ""
                    if a and b:
                        ta, tb = a.split(), b.split()
                        for j, (x, y) in enumerate(zip(ta, tb)):
                            if x != y:
                                where = "first differing token %d: implementation %s... model %s..." % (j, x[:60], y[:60])
                                break
                        else:
                            where = "lengths differ: %d vs %d tokens" % (len(ta), len(tb))
                    chk.broke("correspondence:%s:%s" % (chk.id, k), "%s %s: %s" % (k, r["w"].describe(), where or ("implementation=%s model=%s" % ((a or "")[:80], (b or "")[:80]))))
    chk.coverage["model_vs_impl_mismatches"] = chk.coverage.get("model_vs_impl_mismatches", 0) + n
    return n


def gen_workloads(rng, shapes, n, maxrecs=12, pages=(1, 2, 3, 7, 1000), codecs=(0, 1, 2), extreme=0.5, maxlist=3, minrecs=0, codec_cycle=False):
    out = []
    for k in range(n):
        sh = shapes[k % len(shapes)]
        nrec = rng.randrange(minrecs, maxrecs + 1)
        ops = []
        for _ in range(nrec):
            ops.append(S.gen_value(rng, sh.model_fields(), maxlist=maxlist, extreme=extreme))
            if rng.random() < 0.3:
                ops.append("W")
        if rng.random() < 0.8:
            ops.append("W")
        codec = rng.choice(codecs)
        if codec_cycle:          # small samples: every codec gets its share whatever the seed
            codec = codecs[(k // len(shapes) + k) % len(codecs)]
        out.append(Workload(sh, codec, rng.choice(pages), ops, "random"))
    return out


def run_structured_workloads(rng, shapes, tier):
    """N identical records then a different one, so that the level streams hold runs of exactly N equal levels
    (8-value, 63/64-group and multi-byte-header boundaries of the RLE/bit-packed hybrid encoder), and alternating
    records (long bit-packed runs)"""
    ws = []
    # run-structured: N identical records then a different one, so that the level streams hold runs of exactly N
    # equal levels (8-value, 63/64-group and multi-byte-header boundaries of the RLE/bit-packed hybrid encoder)
    ns = [7, 8, 9, 63, 64, 65, 127, 128, 129, 504, 505, 512, 513]
    if tier == "quick":
        ns = [8, 63, 64, 65, 128, 505, 512]
    for sh in shapes:
        if sh.name not in ("opt3", "boolopt", "p_opt3", "p_boolopt"):
            continue
        full = S.gen_value(rng, sh.model_fields(), maxlist=2, pnull=0.0, extreme=0.3)
        empty = S.gen_value(rng, sh.model_fields(), maxlist=0, pnull=1.0, extreme=0.3)
        alt = [full, empty]
        for n in ns:
            for mx in (1000, n):
                ws.append(Workload(sh, rng.randrange(3), mx, [full] * n + [empty, "W"], "run-of-%d" % n if n in (64, 505) else "run-structured"))
            ws.append(Workload(sh, rng.randrange(3), 1000, [alt[i % 2] for i in range(n + 1)] + [full] * 9 + ["W"], "alternating"))
        if sh.name in ("boolopt", "p_boolopt"):
            # a run of >= 8192 equal levels: run header of three ULEB128 bytes
            # (short values from a fixed generator: the cost of this workload must not depend on the seed)
            r2 = random.Random(8200)
            full2 = S.gen_value(r2, sh.model_fields(), maxlist=2, pnull=0.0, extreme=0.0)
            ws.append(Workload(sh, rng.randrange(3), 10000, [full2] * 8200 + [empty, "W"], "run-of-8200"))
    return ws


def big_workloads(shapes, codecs=(2, 1, 0), plans=((6000, 9000), (4096, 8192))):
    """files whose pages are larger than / exact multiples of the 32 KiB window of deflate and of typical read buffers:
    two required numeric columns, (page size, records) per plan; values vary so that compressed pages are not tiny"""
    fn = next((s for s in shapes if s.name == "flatnum"), None)
    if fn is None:
        return []
    out = []
    for codec in codecs:
        for mx, n in plans:
            recs = ["G 2 %s %s" % (S.tok_num((i * 2654435761) % (1 << 40)), S.tok_num(4607182418800017408 + (i * 40503) % (1 << 30))) for i in range(n)]
            out.append(Workload(fn, codec, mx, recs + ["W"], "large-pages"))
    return out


def long_string_workloads(rng, shapes, sizes=(1100, 3000, 70000)):
    """records whose string values are longer than 1 KiB / 64 KiB (limits of decoders and buffers; they also end up
    in the page-header statistics)"""
    out = []
    for sh in shapes:
        if sh.name not in ("flat24", "person"):
            continue
        for k, size in enumerate(sizes):
            recs = []
            for j in range(3):
                toks = S.gen_value(rng, sh.model_fields(), maxlist=2, pnull=0.2, extreme=0.3).split()
                toks = [("S" + C.hexs(bytes((97 + (i + j + n) % 23) for i in range(size + n)))) if t.startswith("S") and (n + j) % 2 == 0 else t for n, t in enumerate(toks)]
                recs.append(" ".join(toks))
            out.append(Workload(sh, (k + len(out)) % 3, (1000, 2)[k % 2], recs[:2] + ["W"] + recs[2:] + ["W"], "long-strings"))
    return out


def replay_workload(chk, data, oracles, mutate=False, validate_level=1, read=True):
    """re-run one stored workload (see Workload.replay) through the given oracles"""
    shapes, runner = get_portfolio(chk)
    if not runner:
        return
    sh = next((x for x in shapes if x.name == data.get("shape")), None)
    if sh is None:
        chk.broke("replay", "shape %s of the replay file is not in the portfolio" % data.get("shape"))
        return
    w = Workload(sh, int(data["codec"]), int(data["page_size"]), list(data["ops"]), "replay")
    res = exercise(chk, runner, shapes, [w], chk.id + "-replay", validate_level=validate_level, read=read, mutate=mutate)
    correspondence(chk, res)
    chk.count(("replay", w.shape.name, tuple(w.ops)))
    chk.count(("replay-marker",))
    for o in oracles:
        o(chk, res[0])
    chk.sample({"replayed": w.describe(), "validator": (res[0].get("validate_raw") or "")[:120], "read": (res[0].get("read_impl_raw") or "")[:120]})
    chk.coverage["rule"] = "replay of one stored failing workload"
