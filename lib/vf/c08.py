"""C08 - reading does not depend on how the source fragments its reads."""
import random

from . import common as C
from . import files as Fm
from . import readmodes as R


def run(chk, st, tier):
    rng = random.Random(chk.seed)
    shapes, runner = Fm.get_portfolio(chk)
    if not runner:
        return
    files = R.make_files(chk, runner, shapes, rng, 42 if tier == "quick" else 400, name="C08-files")
    # large pages: 4096 int64/float64 values per page = exact multiples of the 32 KiB deflate window, 2 pages, every codec
    big = Fm.big_workloads(shapes, plans=((4096, 8192),) if tier == "quick" else ((4096, 8192), (6000, 9000)))
    if big:
        lines_b = Fm.shape_lines(shapes) + [w.line("b%d" % i) for i, w in enumerate(big)]
        impl_b, _, _, _ = C.run_cases(lines_b, "C08-big", impl_cmd=[runner], model_lines=[])
        for i, w in enumerate(big):
            pw = Fm.parse_write(impl_b.get("b%d" % i))
            if pw and "1" not in pw[0]:
                files.append((w, b"".join(pw[1])))
    modes = ["chunk:%d" % k for k in (1, 2, 3, 4, 5, 6, 7, 8, 9, 64)] + ["eof", "eofchunk:1", "eofchunk:7"]
    cases = []
    impl_only = set()     # the list-based model needs minutes per fragmented read of a 130 KB file: those are compared with the unfragmented read only
    for i, (w, f) in enumerate(files):
        cases.append(("p%d" % i, w.shape, f, "plain"))
        ms = modes + ["rand:%d" % rng.randrange(1 << 30) for _ in range(3)]
        if w.tag == "large-pages":
            ms = ["chunk:1", "chunk:3", "chunk:7", "chunk:4096", "eofchunk:5", "rand:%d" % rng.randrange(1 << 30)]
        elif tier == "quick":
            ms = rng.sample(modes, 5) + ["chunk:1", "eofchunk:1", "rand:%d" % rng.randrange(1 << 30)]
        for j, m in enumerate(ms):
            cases.append(("m%d_%d" % (i, j), w.shape, f, m))
            if w.tag == "large-pages" and m != "chunk:4096":
                impl_only.add("m%d_%d" % (i, j))
    impl, model, e1, e2 = R.run_reads(runner, shapes, cases, "C08", impl_only=impl_only)
    if e1[0] != 0 or e2[0] != 0:
        chk.broke("correspondence:C08", "harness rc=%s %s / driver rc=%s %s" % (e1[0], e1[1], e2[0], e2[1]))
    base = {}
    mism = 0
    dist = {}
    for ident, sh, f, m in cases:
        a, b = Fm.strip_read(impl.get(ident)), model.get(ident)
        if a != b and ident not in impl_only:
            mism += 1
            if mism <= 3:
                chk.broke("correspondence:C08", "read of a %d-byte %s file in mode %s: implementation %s... model %s..." % (len(f), sh.name, m, (a or "")[:70], (b or "")[:70]))
        if ident.startswith("p"):
            base[ident[1:]] = a
            continue
        i = ident[1:].split("_")[0]
        w = files[int(i)][0]
        chk.count((sh.name, f, m))
        dist[m.split(":")[0]] = dist.get(m.split(":")[0], 0) + 1
        if a != base[i] or a is None or not a.startswith("OK "):
            chk.fail("%s|c%d|p%d|%s|%s" % (sh.name, w.codec, w.max, w.history(), m.split(":")[0]),
                     "%s read through a source in mode %s gives %s..., unfragmented read gives %s..." % (w.describe(), m, (a or "")[:90], (base[i] or "")[:90]),
                     dict(w.replay(), mode=m, file=C.hexs(f)[:20000]))
    chk.coverage["files"] = len(files)
    chk.coverage["fragmented_reads"] = len(cases) - len(files)
    chk.coverage["model_vs_impl_mismatches"] = mism
    chk.coverage["input_distribution"] = dist
    if cases:
        chk.sample({"file": files[0][0].describe(), "mode": cases[1][3], "implementation": (impl.get(cases[1][0]) or "")[:100]})
    chk.coverage["rule"] = ("portfolio files (random histories, 3 codecs, page sizes 1,2,1000; plus one 8192-record two-page file per codec whose pages are exact multiples of 32 KiB, model compared on the unfragmented and 4096-byte reads only) read by the real generated reader behind an io.ReadSeeker that returns at most k bytes per Read (k=1..9,64), random short reads (seeded), "
                            "and data together with io.EOF on the last read; the outcome (rows, Next count, error, records) must equal the unfragmented outcome and the model's. distinct = distinct (file, mode).")
    chk.coverage["explanation"] = "read_frag_indep (coq/props/C08.v): the reader model's outcome is independent of the fragmentation schedule; census: no raw Read on the source in the anchored files."
    chk.assumptions += ['thrift transport reads byte-wise / through ReadFull (library behaviour, not modelled); census obligation C08_census_no_raw_source_read ties m_read_full to the source']
