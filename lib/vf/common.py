"""Shared machinery of /verif/bin/check: paths, process running, the prepare
step (translator -> Coq -> extraction -> OCaml -> Go), the verdict rule of
DESIGN.md section 2.4 and the evidence writer."""
import fcntl
import hashlib
import json
import os
import re
import subprocess
import sys
import time

VERIF = os.path.dirname(os.path.dirname(os.path.dirname(os.path.abspath(__file__))))
REPO = os.environ.get("VERIF_REPO", "/repo")
WORK = os.path.join(VERIF, "work")
BIN = os.path.join(WORK, "bin")
COQ = os.path.join(VERIF, "coq")
NCPU = os.cpu_count() or 4

GOENV = dict(os.environ, GOFLAGS="-mod=mod", GOPROXY="off", GOSUMDB="off",
             GOTOOLCHAIN="local", CGO_ENABLED=os.environ.get("CGO_ENABLED", "0"))

STATEMENT_RE = re.compile(r"^\s*(Theorem|Lemma|Example|Corollary|Fact|Remark|Proposition)\s+([A-Za-z_][\w']*)", re.M)

TRUSTED_BASE_COMMON = [
    "Coq 8.16.1 kernel (coqc; vm_compute used for finite checks and witnesses; no native_compute)",
    "Coq standard library (List, NArith, ZArith, Lia, Bool, Arith); no axioms: every property theorem prints 'Closed under the global context'",
    "hand-written Gallina model tied to /repo by the correspondence check of this run (differential testing: it bounds how well the model is known to describe the code)",
    "extraction with ExtrOcamlBasic only (bool/option/unit/list/prod/sumbool/sumor mapped to OCaml; andb/orb inlined); nat, positive, N, Z stay extracted Coq datatypes",
    "OCaml 4.13.1, /verif/ocaml driver; Go toolchain and the /verif/go harness; python3 orchestration in /verif/lib/vf",
]


def log(*a):
    print(*a, file=sys.stderr, flush=True)


def _big_stack():
    """the extracted model recurses over lists that are as long as the longest value (non-tail-recursive
    structural recursion): give child processes the largest stack the system allows"""
    import resource
    try:
        soft, hard = resource.getrlimit(resource.RLIMIT_STACK)
        want = hard if hard != resource.RLIM_INFINITY else resource.RLIM_INFINITY
        resource.setrlimit(resource.RLIMIT_STACK, (want, hard))
    except (ValueError, OSError):
        pass


def run(cmd, cwd=None, timeout=3600, env=None, stdin=None, check=False):
    """Run a command, return (rc, stdout, stderr); rc 124 on timeout."""
    try:
        p = subprocess.run(cmd, cwd=cwd, env=env or GOENV, input=stdin, stdout=subprocess.PIPE,
                           stderr=subprocess.PIPE, timeout=timeout, text=True, shell=isinstance(cmd, str), preexec_fn=_big_stack)
        rc, out, err = p.returncode, p.stdout, p.stderr
    except subprocess.TimeoutExpired as e:
        rc, out, err = 124, (e.stdout or b"").decode("utf8", "replace") if isinstance(e.stdout, bytes) else (e.stdout or ""), "timeout"
    if check and rc != 0:
        raise RuntimeError("command failed (%d): %s\n%s\n%s" % (rc, cmd, out[-2000:], err[-2000:]))
    return rc, out, err


def write_if_changed(path, content):
    try:
        if open(path).read() == content:
            return False
    except OSError:
        pass
    os.makedirs(os.path.dirname(path), exist_ok=True)
    with open(path, "w") as f:
        f.write(content)
    return True


class Lock:
    def __init__(self, name="prepare"):
        os.makedirs(WORK, exist_ok=True)
        self.path = os.path.join(WORK, "." + name + ".lock")

    def __enter__(self):
        self.f = open(self.path, "w")
        fcntl.flock(self.f, fcntl.LOCK_EX)
        return self

    def __exit__(self, *a):
        fcntl.flock(self.f, fcntl.LOCK_UN)
        self.f.close()


# ----------------------------------------------------------------------------
# prepare

def coq_files():
    out = []
    for d in ("theories", "gen"):
        for f in sorted(os.listdir(os.path.join(COQ, d))):
            if f.endswith(".v"):
                out.append(d + "/" + f)
    return out


def coq_deps():
    """file -> set of files it depends on (direct), from coqdep."""
    files = coq_files() + ["props/" + f for f in sorted(os.listdir(os.path.join(COQ, "props"))) if f.endswith(".v")]
    rc, out, err = run(["coqdep", "-Q", "theories", "PQ", "-Q", "gen", "PQgen", "-Q", "props", "PQprops"] + files, cwd=COQ)
    deps = {}
    for line in out.splitlines():
        if ":" not in line:
            continue
        lhs, rhs = line.split(":", 1)
        tgt = [t for t in lhs.split() if t.endswith(".vo")]
        if not tgt:
            continue
        src = tgt[0][:-1]
        deps[src] = set(d[:-1] for d in rhs.split() if d.endswith(".vo"))
    return deps


def cone(deps, root):
    seen, todo = set(), [root]
    while todo:
        f = todo.pop()
        if f in seen:
            continue
        seen.add(f)
        todo.extend(deps.get(f, ()))
    return seen


def statements(path):
    try:
        return STATEMENT_RE.findall(open(os.path.join(COQ, path)).read())
    except OSError:
        return []


FORBIDDEN = re.compile(r"\b(Admitted|admit|Axiom|Axioms|Parameter|Parameters|Conjecture|Abort All)\b|Unset\s+Guard|Unset\s+Positivity|Unset\s+Universe|bypass_check|-type-in-type|Admit\s+Obligations")


def forbidden_scan():
    """Forbidden constructs anywhere in the development; Variable/Hypothesis only inside a Section."""
    bad = []
    for d in ("theories", "gen", "props", "extract"):
        dd = os.path.join(COQ, d)
        if not os.path.isdir(dd):
            continue
        for f in sorted(os.listdir(dd)):
            if not f.endswith(".v"):
                continue
            text = open(os.path.join(dd, f)).read()
            text = re.sub(r"\(\*.*?\*\)", lambda m: " " * len(m.group(0)), text, flags=re.S)
            depth = 0
            for i, line in enumerate(text.splitlines(), 1):
                if re.match(r"\s*Section\b", line):
                    depth += 1
                if re.match(r"\s*End\b", line) and depth > 0:
                    depth -= 1
                if FORBIDDEN.search(line):
                    bad.append("%s/%s:%d: %s" % (d, f, i, line.strip()))
                if depth == 0 and re.match(r"\s*(Variable|Variables|Hypothesis|Hypotheses|Context)\b", line):
                    bad.append("%s/%s:%d: %s (outside a Section)" % (d, f, i, line.strip()))
    return bad


def prepare(need_go=True):
    """Rebuild everything from /repo's working tree.  Returns a status dict;
    never raises for a broken proof (that is a verdict, not a crash)."""
    st = {"translator_ok": False, "translator_msg": "", "coq_ok": {}, "coq_log": "", "extract_ok": False,
          "driver_ok": False, "go_ok": False, "go_msg": ""}
    with Lock():
        os.makedirs(BIN, exist_ok=True)
        t0 = time.time()
        # 1. translator (its source is in /verif; rebuilt only when needed by go's cache)
        rc, out, err = run(["go", "build", "-o", os.path.join(BIN, "translator"), "."], cwd=os.path.join(VERIF, "go", "translator"))
        if rc != 0:
            st["translator_msg"] = "translator does not build: " + err[-500:]
        else:
            tmp = os.path.join(WORK, "BitpackImpl.v.new")
            rc, out, err = run([os.path.join(BIN, "translator"), os.path.join(REPO, "internal/bitpack/bitpack.go"), tmp])
            if rc == 0 and os.path.exists(tmp) and os.path.getsize(tmp) > 0:
                write_if_changed(os.path.join(COQ, "gen", "BitpackImpl.v"), open(tmp).read())
                st["translator_ok"] = True
            else:
                st["translator_msg"] = (err or "translator produced no output").strip()[-800:]
        # 1b. source census
        from . import census
        try:
            census.regenerate(st)
        except Exception as e:  # census failure is reported by the properties that use it
            st["census_msg"] = "census failed: %r" % (e,)
        # 2. Coq
        files = coq_files()
        cp = "-Q theories PQ\n-Q gen PQgen\n-Q props PQprops\n" + "\n".join(files) + "\n"
        if write_if_changed(os.path.join(COQ, "_CoqProject"), cp) or not os.path.exists(os.path.join(COQ, "Makefile")):
            run(["coq_makefile", "-f", "_CoqProject", "-o", "Makefile"], cwd=COQ)
        if os.environ.get("VERIF_DEV_SKIP_COQ"):   # development aid only; never set by registered commands
            rc, out, err = 0, "", ""
        else:
            rc, out, err = run(["timeout", "3000", "make", "-k", "-j%d" % NCPU], cwd=COQ, timeout=3100)
        st["coq_log"] = (out + err)[-6000:]
        for f in files:
            rcq, _, _ = run(["make", "-q", f + "o"], cwd=COQ)
            st["coq_ok"][f] = (rcq == 0)
        # 3. extraction + OCaml
        oc = os.path.join(WORK, "ocaml")
        os.makedirs(oc, exist_ok=True)
        rc, out, err = run(["timeout", "900", "coqc", "-Q", os.path.join(COQ, "theories"), "PQ", "-Q", os.path.join(COQ, "gen"), "PQgen",
                            os.path.join(COQ, "extract", "Extract.v")], cwd=oc, timeout=1000)
        st["extract_ok"] = (rc == 0)
        if rc != 0:
            st["extract_msg"] = (out + err)[-1500:]
        else:
            for f in os.listdir(os.path.join(VERIF, "ocaml")):
                if f.endswith(".ml"):
                    write_if_changed(os.path.join(oc, f), open(os.path.join(VERIF, "ocaml", f)).read())
            rc, out, err = run("ocamlfind ocamlopt -w -a -package unix -linkpkg model.mli model.ml util.ml cases.ml driver.ml -o %s" % os.path.join(BIN, "driver"), cwd=oc, timeout=900)
            st["driver_ok"] = (rc == 0)
            if rc != 0:
                st["extract_msg"] = (out + err)[-1500:]
        # 4. Go harness against /repo's working tree, hooks on
        if need_go:
            hd = os.path.join(VERIF, "go", "harness")
            try:
                write_if_changed(os.path.join(hd, "go.sum"), open(os.path.join(REPO, "go.sum")).read())
            except OSError:
                pass
            ok = True
            for name in ("corehar", "codec"):
                if not os.path.isdir(os.path.join(hd, "cmd", name)):
                    continue
                rc, out, err = run(["go", "build", "-tags", "verif", "-o", os.path.join(BIN, name), "./cmd/" + name], cwd=hd, timeout=900)
                if rc != 0:
                    ok = False
                    st["go_msg"] += (out + err)[-1500:]
            st["go_ok"] = ok
        st["prepare_s"] = round(time.time() - t0, 1)
    return st


def check_props(prop_id, st):
    """Compile props/<id>.v against what make produced; returns a dict with
    obligations/discharged counts, assumptions text and the list of broken parts."""
    deps = coq_deps()
    root = "props/%s.v" % prop_id
    files = sorted(cone(deps, root))
    res = {"files": files, "obligations": 0, "discharged": 0, "broken": [], "assumptions": "", "theorems": []}
    for f in files:
        n = len(statements(f))
        res["obligations"] += n
        if f.startswith("props/"):
            continue
        if st["coq_ok"].get(f):
            res["discharged"] += n
        else:
            res["broken"].append("%s does not compile" % f)
    if not res["broken"]:
        rc, out, err = run(["timeout", "900", "coqc", "-Q", "theories", "PQ", "-Q", "gen", "PQgen", "-Q", "props", "PQprops", root], cwd=COQ, timeout=1000)
        if rc == 0:
            res["discharged"] += len(statements(root))
            res["assumptions"] = out.strip()
            res["theorems"] = [n for _, n in statements(root)]
            blocks = re.split(r"\n(?=Closed under|Axioms:)", out.strip())
            nonclosed = [b for b in blocks if b.startswith("Axioms:")]
            if nonclosed:
                res["axioms"] = nonclosed
        else:
            res["broken"].append("%s does not compile: %s" % (root, (out + err).strip()[-600:]))
    else:
        # name the first failing statement from the make log
        m = re.search(r'File "\./([^"]+)", line (\d+)', st.get("coq_log", ""))
        if m:
            res["broken"].append("first error at %s line %s" % (m.group(1), m.group(2)))
    bad = forbidden_scan()
    if bad:
        res["broken"].append("forbidden constructs: " + "; ".join(bad[:5]))
    return res


# ----------------------------------------------------------------------------
# known findings

def known_findings(prop_id):
    path = os.path.join(VERIF, "known_findings.jsonl")
    out = {}
    try:
        for line in open(path):
            line = line.strip()
            if not line or line.startswith("#"):
                continue
            e = json.loads(line)
            if e.get("property") == prop_id and e.get("kind") == "open":
                out[e["key"]] = e
    except OSError:
        pass
    return out


# ----------------------------------------------------------------------------
# verdict + evidence

class Check:
    def __init__(self, prop_id, tier, level="proof"):
        self.id = prop_id
        self.tier = tier
        self.level = level
        self.seed = int(os.environ.get("VERIF_SEED", "0") or 0)
        self.t0 = time.time()
        self.failures = []       # (key, what, replay dict): concrete failing inputs on the implementation
        self.broken = []         # (name, detail): proof obligation / census / correspondence no longer checks
        self.known = known_findings(prop_id)
        self.known_hit = {}
        self.coverage = {"evaluations": 0, "distinct_nontrivial": 0, "rule": "", "samples": []}
        self.assumptions = []
        self.notes = []
        self._distinct = set()

    # counting ---------------------------------------------------------------
    def count(self, key, nontrivial=True, n=1):
        self.coverage["evaluations"] += n
        if nontrivial:
            h = hashlib.blake2b(repr(key).encode(), digest_size=8).digest()
            self._distinct.add(h)

    def sample(self, s, limit=6):
        if len(self.coverage["samples"]) < limit:
            self.coverage["samples"].append(s)

    # results ----------------------------------------------------------------
    def fail(self, key, what, replay):
        """A concrete input on which the implementation breaks the property."""
        if key in self.known:
            self.known_hit[key] = what
            return
        self.failures.append((key, what, replay))

    def broke(self, name, detail):
        self.broken.append((name, detail))

    def proof_status(self, st):
        res = check_props(self.id, st)
        self.coverage["obligations"] = res["obligations"]
        self.coverage["discharged"] = res["discharged"]
        self.coverage["checker_cmd"] = "cd /verif/coq && make -k -j%d (full .vo build via coq_makefile) && coqc -Q theories PQ -Q gen PQgen -Q props PQprops props/%s.v" % (NCPU, self.id)
        self.coverage["proof_files"] = res["files"]
        self.coverage["property_theorems"] = res["theorems"]
        self.coverage["print_assumptions"] = res["assumptions"][-3000:]
        for b in res["broken"]:
            self.broke("proof:" + self.id, b)
        if res.get("axioms"):
            self.notes.append("axioms reported by Print Assumptions: " + " | ".join(res["axioms"])[:2000])
        if self.tier == "thorough" and not res["broken"]:
            # independent re-check of the compiled cone of the property's theorems
            rc, out, err = run(["timeout", "7000", "coqchk", "-silent", "-o", "-Q", "theories", "PQ", "-Q", "gen", "PQgen", "-Q", "props", "PQprops",
                                "PQprops." + self.id], cwd=COQ, timeout=7200)
            txt = (out + err)
            m = re.search(r"\* Axioms:(.*?)\n\s*\n", txt, re.S)
            self.coverage["coqchk"] = {"exit": rc, "axioms": (m.group(1).strip() if m else "?")[:1500]}
            if rc != 0:
                self.broke("coqchk:" + self.id, "coqchk rejects the compiled development: " + txt[-600:])
        return res

    def finish(self):
        os.makedirs(os.path.join(WORK, "replay"), exist_ok=True)
        self.coverage["distinct_nontrivial"] = len(self._distinct)
        self.coverage.setdefault("trusted_base", TRUSTED_BASE_COMMON)
        rc = 0
        lines = []
        for key, what in sorted(self.known_hit.items()):
            lines.append("KNOWN-FINDING: property=%s %s" % (self.id, what))
        if self.failures:
            rc = 1
            for i, (key, what, replay) in enumerate(self.failures[:3]):
                path = os.path.join(WORK, "replay", "%s-%d-%d.json" % (self.id, int(self.t0), i))
                with open(path, "w") as f:
                    json.dump({"property": self.id, "seed": self.seed, "tier": self.tier, "key": key, "what": what, "replay": replay,
                               "broken": [list(b) for b in self.broken]}, f, indent=1)
                lines.append("VIOLATION property=%s replay=%s" % (self.id, path))
                log("  failing input: " + what[:600])
        elif self.broken:
            rc = 1
            path = os.path.join(WORK, "replay", "%s-%d-broken.json" % (self.id, int(self.t0)))
            with open(path, "w") as f:
                json.dump({"property": self.id, "seed": self.seed, "tier": self.tier, "no_failing_input_found": True,
                           "no_longer_checks": [{"name": n, "detail": d} for n, d in self.broken]}, f, indent=1)
            for n, d in self.broken[:5]:
                log("  no longer checks: %s: %s" % (n, d[:600]))
            lines.append("VIOLATION property=%s replay=%s no-failing-input-found" % (self.id, path))
        ev = {
            "property_id": self.id, "tier": self.tier, "seed": self.seed, "level": self.level,
            "coverage": self.coverage, "assumptions": self.assumptions,
            "wall_s": round(time.time() - self.t0, 2), "violations": len(self.failures) + (1 if (self.broken and not self.failures) else 0),
        }
        ev["coverage"]["known_findings_reproduced"] = sorted(self.known_hit)
        ev["coverage"]["notes"] = self.notes
        # (maintenance runs against a patched /repo - bin/seedtest, bin/seedall - set VERIF_EVIDENCE_DIR so that they never touch evidence/)
        evdir = os.environ.get("VERIF_EVIDENCE_DIR") or os.path.join(VERIF, "evidence")
        os.makedirs(evdir, exist_ok=True)
        with open(os.path.join(evdir, self.id + ".json"), "w") as f:
            json.dump(ev, f, indent=1, sort_keys=True)
        for l in lines:
            print(l)
        sys.stdout.flush()
        return rc


# ----------------------------------------------------------------------------
# model/implementation comparison

def run_cases(lines, name, impl_cmd=None, timeout=1800, model_lines=None):
    """Write the case lines to work/cases/<name>.txt, run the implementation
    harness and the extracted model on them, return (impl dict, model dict)."""
    d = os.path.join(WORK, "cases")
    os.makedirs(d, exist_ok=True)
    path = os.path.join(d, name + ".txt")
    with open(path, "w") as f:
        f.write("\n".join(lines) + "\n")
    impl_cmd = impl_cmd or [os.path.join(BIN, "corehar"), "run"]
    if impl_cmd == ["true"]:
        rc1, out1, err1 = 0, "", ""
    else:
        rc1, out1, err1 = run(impl_cmd + [path], timeout=timeout)
    mpath = path
    if model_lines is not None:      # the model evaluates a subset (cases too slow for the functional model are implementation-only)
        mpath = os.path.join(d, name + ".model.txt")
        with open(mpath, "w") as f:
            f.write("\n".join(model_lines) + "\n")
    rc2, out2, err2 = run([os.path.join(BIN, "driver"), mpath, os.path.join(BIN, "codec")], timeout=timeout)
    def parse(out):
        res = {}
        for l in out.splitlines():
            if " " in l:
                i, r = l.split(" ", 1)
            else:
                i, r = l, ""
            res[i] = r
        return res
    if rc1 != 0:
        log("implementation harness failed rc=%d: %s" % (rc1, err1[-800:]))
    if rc2 != 0:
        log("model driver failed rc=%d: %s" % (rc2, err2[-800:]))
    return parse(out1), parse(out2), (rc1, err1[-500:]), (rc2, err2[-500:])


def hexs(b):
    return b.hex() if b else "-"
