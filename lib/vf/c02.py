"""C02 - every written file is structurally valid Parquet with a truthful footer."""
import random

from . import common as C
from . import files as Fm
from . import shapes as S


def oracle(chk, r):
    w = r["w"]
    key = "%s|c%d|p%d|%s" % (w.shape.name, w.codec, w.max, w.history())
    if r["file"] is None or "1" in (r["flags"] or "1"):
        chk.fail(key + "|write", "writing %s failed or panicked: %s" % (w.describe(), (r["impl_write"] or "")[:200]), w.replay())
        return False
    v = r["validate"]
    bs = w.batches()
    what = None
    if v is None:
        what = "validator gave no verdict"
    elif not v["valid"]:
        what = "file is not structurally valid: " + v["error"]
    elif v["rows"] != [len(b) for b in bs]:
        what = "row groups have rows %s, batches written have %s" % (v["rows"], [len(b) for b in bs])
    elif int(v["maxpagerecs"]) > w.max:
        what = "a data page holds %s records, page size is %d" % (v["maxpagerecs"], w.max)
    elif int(v["ncols"]) != len(w.shape.columns()):
        what = "footer schema has %s leaf columns, the struct has %d" % (v["ncols"], len(w.shape.columns()))
    elif v.get("recs", "").split() != " ".join(x for b in bs for x in b).split():
        what = "the records an independent reader assembles from the file differ from the records written"
    if what:
        chk.fail(key, "%s: %s" % (w.describe(), what), dict(w.replay(), file=C.hexs(r["file"])[:20000]))
        return False
    return True


def run(chk, st, tier):
    rng = random.Random(chk.seed)
    shapes, runner = Fm.get_portfolio(chk)
    if not runner:
        return
    n = 220 if tier == "quick" else 2500
    ws = Fm.gen_workloads(rng, shapes, n, maxrecs=12, pages=(1, 2, 3, 7, 1000))
    # pages with hundreds of levels (run boundaries of the hybrid encoding), values beyond 1 KiB, pages beyond 32 KiB
    ws += Fm.run_structured_workloads(rng, shapes, tier)
    ws += Fm.long_string_workloads(rng, shapes, sizes=(1100, 3000) if tier == "quick" else (1100, 3000, 70000))
    ws += Fm.big_workloads(shapes, codecs=(2,) if tier == "quick" else (2, 1, 0), plans=((6000, 9000),))
    res = Fm.exercise(chk, runner, shapes, ws, "C02", validate_level=1, read=False)
    Fm.correspondence(chk, res, what=("write",))
    ok = 0
    dist = {}
    pages = 0
    for r in res:
        w = r["w"]
        chk.count((w.shape.name, w.codec, w.max, tuple(w.ops)), nontrivial=any(o != "W" for o in w.ops))
        dist[w.shape.name] = dist.get(w.shape.name, 0) + 1
        if oracle(chk, r):
            ok += 1
            pages += int(r["validate"].get("npages", 0))
    chk.coverage["workloads"] = len(ws)
    chk.coverage["files_valid"] = ok
    chk.coverage["pages_validated"] = pages
    chk.coverage["input_distribution"] = dist
    for r in res[:2]:
        chk.sample({"workload": r["w"].describe(), "file_bytes": len(r["file"] or b""), "validator": (r.get("validate_raw") or "")[:140]})
    chk.coverage["rule"] = ("portfolio shapes (flat 8x3, Person, Document, nested optional, bools, required 3-deep with same-named groups, embedded) x random Add/Write histories x page sizes {1,2,3,7,1000} x 3 codecs; "
                            "every sink write compared byte for byte with the model's, and the real bytes checked by the extracted independent validator FileSpec.check_file "
                            "(magic, footer length, thrift footer, schema tree vs column chunks, offsets, sizes, value/row counts, level sections, page boundaries, records per page <= page size). "
                            "distinct = distinct (shape,codec,page size,history with values); non-trivial = at least one record.")
    chk.coverage["explanation"] = "check_file is the executable definition of validity; see coq/props/C02.v for what is proved about the writer model against it."
    chk.assumptions += ['codec contract decompress(compress x)=Some x as premise of the theorems; the validator is bound to the real snappy/gzip decoders through work/bin/codec', 'check_file is the definition of validity for this development: hand-written from the Parquet format documents']


def replay(chk, st, data):
    Fm.replay_workload(chk, data, [oracle], read=False)
