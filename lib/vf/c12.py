"""C12 - page statistics are sound bounds and exact null counts."""
import random

from . import common as C
from . import files as Fm
from . import shapes as S


def stress_values(rng, prim):
    ex = S.EXTREMES.get(prim)
    sets = []
    if prim == "string":
        pool = [S.tok_num and ("S" + C.hexs(b)) for b in S.STRINGS]
        sets = [pool[:1], pool[3:5], pool, [pool[3], pool[2]], [pool[4]] * 3, [pool[5], pool[6], pool[7]]]
        # long values around the lengths at which an implementation might cut a bound: 0xff as the last byte kept, all-0xff, long common prefixes
        for c in (8, 16, 32, 64, 128, 256):
            sets.append(["S" + C.hexs(b"x" * (c - 1) + b"\xff" + b"zz"), "S" + C.hexs(b"a")])
        sets.append(["S" + C.hexs(b"\xff" * 300), "S" + C.hexs(b"\xff" * 299)])
        sets.append(["S" + C.hexs(b"k" * 200), "S" + C.hexs(b"k" * 199 + b"y"), "S" + C.hexs(b"k" * 199)])
    elif prim == "bool":
        sets = [["I0"], ["I1"], ["I0", "I1", "I1"]]
    else:
        bits = S.PRIM_BITS[prim]
        neg = [S.tok_num((1 << bits) - k) for k in (1, 5, 100)]
        sets = [neg, [S.tok_num(ex[0])] * 3, [S.tok_num(x) for x in ex], [S.tok_num(ex[2])], [S.tok_num(ex[3])],
                [S.tok_num(rng.randrange(1 << bits)) for _ in range(5)]]
        if prim.startswith("float"):
            nan, ninf = S.tok_num(ex[4]), S.tok_num(ex[3])
            sets += [[nan], [nan, nan], [nan, S.tok_num(ex[1]), S.tok_num(ex[0])], [ninf, nan, S.tok_num(ex[2])], [S.tok_num(ex[5]), S.tok_num(ex[6])]]
    return sets


def run(chk, st, tier):
    rng = random.Random(chk.seed)
    shapes, runner = Fm.get_portfolio(chk)
    if not runner:
        return
    flat = next((s for s in shapes if s.name == "flat24"), None)
    ws = []
    if flat:
        fields = flat.model_fields()
        # one column at a time gets the stress multiset, as single-page, multi-page and page-size-1 files
        for fi, f in enumerate(fields):
            for vs in stress_values(rng, f.typ):
                recs = []
                for v in vs:
                    toks = ["G", str(len(fields))]
                    for fj, g in enumerate(fields):
                        val = v if fj == fi else S.gen_leaf(rng, g.typ, 0.3)
                        if g.rep == "opt":
                            toks.append("N" if (fj != fi and rng.random() < 0.5) else val)
                        elif g.rep == "rep":
                            toks += ["L", "2", val, val] if fj == fi else ["L", "0"]
                        else:
                            toks.append(val)
                    recs.append(" ".join(toks))
                if f.rep == "opt":
                    # pages with only nulls
                    nullrec = ["G", str(len(fields))]
                    for g in fields:
                        nullrec += ["N"] if g.rep == "opt" else (["L", "0"] if g.rep == "rep" else [S.gen_leaf(rng, g.typ, 0.3)])
                    recs = recs + [" ".join(nullrec)] * 2
                long = f.typ == "string" and any(len(v) > 40 for v in vs)
                for mx in (1, 2, 1000):
                    ws.append(Fm.Workload(flat, rng.randrange(3), mx, recs + ["W"], "stress:" + ("longstring" if long else f.typ)))
    # several entries per record in optional columns: lists whose elements are mostly null (null_count counts entries, not records)
    rl = next((s for s in shapes if s.name == "replist"), None)
    if rl:
        lf = rl.model_fields()[1].typ          # fields of the list element

        def elem(mask):
            toks = ["G", str(len(lf))]
            for j, g in enumerate(lf):
                if g.rep == "opt":
                    toks.append(S.gen_leaf(rng, g.typ, 0.5) if mask >> j & 1 else "N")
                elif g.rep == "rep":
                    toks += ["L", "0"] if not (mask >> j & 1) else ["L", "2", "I1", "I0"]
                else:
                    toks.append(S.gen_leaf(rng, g.typ, 0.2))
            return toks
        recs = []
        for masks in ([0, 0, 0], [0, 127, 0], [127, 0, 0, 127], [0], [], [85, 42, 0, 0, 127]):
            toks = ["G", "2", "I%d" % len(recs), "L", str(len(masks))]
            for m in masks:
                toks += elem(m)
            recs.append(" ".join(toks))
        for mx in (1, 2, 1000):
            ws.append(Fm.Workload(rl, rng.randrange(3), mx, recs + ["W"], "stress:multi-entry-nulls"))
    ws += Fm.gen_workloads(rng, shapes, 60 if tier == "quick" else 1500, maxrecs=10, extreme=0.8)
    if tier == "quick":
        rng.shuffle(ws)
        always = ("stress:longstring", "stress:multi-entry-nulls")
        ws = [w for w in ws if w.tag in always] + [w for w in ws if w.tag not in always][:420]
    res = Fm.exercise(chk, runner, shapes, ws, "C12", validate_level=0, read=False)
    Fm.correspondence(chk, res, what=("write",))
    ok = 0
    pages = 0
    dist = {}
    for r in res:
        w = r["w"]
        chk.count((w.shape.name, w.codec, w.max, tuple(w.ops)), nontrivial=any(o != "W" for o in w.ops))
        dist[w.tag] = dist.get(w.tag, 0) + 1
        v = r["validate"]
        key = "%s|c%d|p%d|%s|%s" % (w.shape.name, w.codec, w.max, w.tag, w.history())
        if r["file"] is None:
            chk.fail(key + "|write", "writing %s failed: %s" % (w.describe(), (r["impl_write"] or "")[:150]), w.replay())
        elif v is None or not v["valid"]:
            chk.broke("oracle:C12", "validator rejects the file of %s: %s (statistics cannot be checked)" % (w.describe(), v and v["error"]))
        elif v["statsok"] != "1":
            chk.fail(key, "%s: a page's statistics are unsound (null_count wrong, or min/max not bounds of the page's non-NaN values, or present without values)" % (w.describe(),),
                     dict(w.replay(), file=C.hexs(r["file"])[:20000]))
        else:
            ok += 1
            pages += int(v["npages"])
    chk.coverage["workloads"] = len(ws)
    chk.coverage["files_with_sound_statistics"] = ok
    chk.coverage["pages_checked"] = pages
    chk.coverage["input_distribution"] = dist
    for r in res[:2]:
        chk.sample({"workload": r["w"].describe(), "validator": (r.get("validate_raw") or "")[:120]})
    chk.coverage["rule"] = ("per column of the flat 8x3 shape, stress multisets (all-negative, all-equal, type min/max, +-0, +-Inf, NaN incl. signaling, the former sentinel string, empty string, shared prefixes, bytes >= 0x80, values of 8..300 bytes with 0xff at offsets 7,15,..,255, only-null pages; lists of 0..5 elements whose optional leaves are mostly null) "
                            "as 1-page, multi-page and page-size-1 files, plus random workloads over the portfolio with 80% extreme values; every page of the real file is decoded by the extracted validator and Stats.stats_sound is evaluated "
                            "on its header statistics; sink writes (which contain the statistics) also compared with the model byte for byte. distinct = distinct workloads.")
    chk.coverage["explanation"] = "page_stats_sound (coq/props/C12.v) is proved for all pages about the accumulator model; stats_sound is also the oracle applied to the real pages."
    chk.assumptions += ['statistics compared byte-exactly inside page headers; stats_sound is evaluated on pages decoded by the validator']


def _oracle(chk, r):
    w = r["w"]
    v = r["validate"]
    key = "%s|c%d|p%d|%s|%s" % (w.shape.name, w.codec, w.max, w.tag, w.history())
    if r["file"] is None or v is None or not v["valid"]:
        chk.broke("oracle:C12", "cannot validate the replayed file: %s" % (v and v.get("error"),))
    elif v["statsok"] != "1":
        chk.fail(key, "%s: a page's statistics are unsound" % (w.describe(),), w.replay())


def replay(chk, st, data):
    Fm.replay_workload(chk, data, [_oracle], validate_level=0, read=False)
