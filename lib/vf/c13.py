"""C13 - output depends only on an instance's own history; instances do not interfere."""
import os
import random

from . import common as C
from . import files as Fm
from . import shapes as S
from . import readmodes as R


def run(chk, st, tier):
    rng = random.Random(chk.seed)
    shapes, runner = Fm.get_portfolio(chk)
    if not runner:
        return
    n = 70 if tier == "quick" else 600
    ws = Fm.gen_workloads(rng, shapes, n, maxrecs=10, pages=(1, 2, 7, 1000))
    for w in ws:
        if not w.ops or w.ops[-1] != "W":
            w.ops.append("W")
    lines = Fm.shape_lines(shapes) + [w.line("w%d" % i) for i, w in enumerate(ws)]
    # 1. solo/sequential runs, compared with the model (the model has no shared state at all)
    impl, model, e1, e2 = C.run_cases(lines, "C13-seq", impl_cmd=[runner])
    mism = 0
    files = {}
    for i, w in enumerate(ws):
        a, b = impl.get("w%d" % i), model.get("w%d" % i)
        if a != b:
            mism += 1
            if mism <= 3:
                chk.broke("correspondence:C13", "%s: sequential run differs from the model" % (w.describe(),))
        pw = Fm.parse_write(a)
        if pw:
            files[i] = b"".join(pw[1])
    # reads of the files too
    rlines = Fm.shape_lines(shapes) + ["r%d read %s %s plain" % (i, ws[i].shape.name, C.hexs(f)) for i, f in files.items()]
    impl_r, model_r, _, _ = C.run_cases(rlines, "C13-seq-read", impl_cmd=[runner])
    base = dict(("w%d" % i, impl.get("w%d" % i)) for i in range(len(ws)))
    base.update(("r%d" % i, impl_r.get("r%d" % i)) for i in files)
    # 2. a different process history: the same cases in another order, after other work has filled the pools
    order = list(range(len(ws)))
    rng.shuffle(order)
    # ... and after other writers whose sink failed at some write (error paths touch the shared pools too)
    failing = [ws[i].line("y%d_%d" % (i, k), failat=k) for i in order[:14] for k in (1, 2, 3, 4, 6, 9)]
    plines = Fm.shape_lines(shapes) + [ws[i].line("x%d" % i) for i in order[:20]] + failing + [ws[i].line("w%d" % i) for i in order] + \
        ["r%d read %s %s plain" % (i, ws[i].shape.name, C.hexs(files[i])) for i in order if i in files]
    d = os.path.join(C.WORK, "cases")
    ppath = os.path.join(d, "C13-polluted.txt")
    with open(ppath, "w") as f:
        f.write("\n".join(plines) + "\n")
    rc, out, err = C.run([runner, ppath], timeout=1800)
    polluted = dict(l.split(" ", 1) for l in out.splitlines() if " " in l)
    # 3. all instances concurrently on goroutines, three times over
    cpath = os.path.join(d, "C13-conc.txt")
    with open(cpath, "w") as f:
        f.write("\n".join(lines + rlines + failing) + "\n")
    rc, out, err = C.run([runner, "-parallel", "16", "3", cpath], timeout=1800)
    conc = dict(l.split(" ", 1) for l in out.splitlines() if " " in l)
    if rc != 0:
        chk.broke("harness:C13", "concurrent run failed rc=%d %s" % (rc, err[-300:]))
    # 4. the same concurrent run under the race detector
    race_note = "not run"
    rr, msg = S.build_race_runner("portfolio")
    races = 0
    if rr:
        rc, out, err = C.run([rr, "-parallel", "16", "2" if tier == "quick" else "5", cpath], timeout=3000, env=dict(C.GOENV, GORACE="halt_on_error=0"))
        races = err.count("WARNING: DATA RACE")
        race_note = "race-detector build ran %d instance runs concurrently: %d data race reports, exit %d" % (2 * len(conc), races, rc)
        if races:
            first = err[err.find("WARNING: DATA RACE"):][:1500]
            chk.fail("race|" + (first.split("\n")[2] if len(first.split("\n")) > 2 else "?")[:120], "data race between independent instances: " + first.replace("\n", " | ")[:900], {"stderr": first})
        elif rc != 0:
            chk.broke("harness:C13", "race-detector run failed rc=%d %s" % (rc, err[-300:]))
    else:
        chk.notes.append("race-detector build unavailable: " + msg[:200])
        race_note = "race-detector build unavailable"
    bad = 0
    for ident, want in base.items():
        i = int(ident[1:])
        w = ws[i]
        chk.count((ident[0], w.shape.name, w.codec, w.max, tuple(w.ops)))
        for label, got in (("after a different process history (other writers first, other order)", polluted.get(ident)), ("run concurrently with other instances", conc.get(ident))):
            if Fm.strip_read(got or "") != Fm.strip_read(want or ""):
                bad += 1
                chk.fail("%s|%s|c%d|p%d|%s|%s" % (ident[0], w.shape.name, w.codec, w.max, w.history(), label.split()[0]),
                         "%s %s: the result differs from the solo run (%s... vs %s...)" % (w.describe(), label, (got or "")[:60], (want or "")[:60]), w.replay())
                break
    chk.coverage["instances"] = len(base)
    chk.coverage["runs_compared"] = 2 * len(base)
    chk.coverage["divergent"] = bad
    chk.coverage["model_vs_impl_mismatches"] = mism
    chk.coverage["race_detector"] = race_note
    chk.sample({"workload": ws[0].describe(), "solo": (base.get("w0") or "")[:80], "concurrent": (conc.get("w0") or "")[:80]})
    chk.coverage["rule"] = ("portfolio workloads (writer instances) and reads of their files (reader instances): each run solo in order (and compared with the model, which has no shared state), then in a process with a different "
                            "earlier history (20 other writer runs and 84 writer runs whose sink fails at its 1st..9th write first, shuffled order: other buffer-pool contents, error paths taken), then all concurrently (together with the failing-sink writers) on 16 goroutines three times over, then again under the Go race detector. "
                            "Every result must be byte-identical to the solo result. distinct = distinct instances.")
    chk.coverage["explanation"] = ("C13_pool_indep / C13_interleave_indep (coq/props/C13.v): in the model the pooled buffers' stale contents cannot influence any output and any interleaving of API calls of independent instances gives each "
                                   "instance its solo outputs. Data-race freedom and intra-call preemption are Go memory-model behaviour that an executable Gallina model cannot exhibit: they are explored by the runs above, not proved.")
    chk.assumptions += ["snappy.Encode's result does not depend on the contents of its dst argument; bytebufferpool.Put resets the length to 0 (library contracts)",
                        "census: buffpool is the only package-level mutable state of package parquet and of the generated package; every Get is followed by defer Put"]
