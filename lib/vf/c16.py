"""C16 - introspection calls report exactly what is in the file."""
import os
import random

from . import common as C
from . import files as Fm
from . import readmodes as R


def boundary_files(chk, runner, shapes, tier):
    """files whose FOOTER length falls just below / at / above a power of two (sizes of read-ahead buffers):
    two required numeric columns, about 64 (4 KiB) or 1020 (64 KiB) row groups of one record, some of them
    with 64 records to move the widths of the varints; a grid is written with the real writer, the footer
    length read from the trailer, and the files closest to the boundary are kept.  The extracted model needs
    minutes per file of this many row groups, so the oracle here is what the construction knows: row counts,
    number of row groups, one page header per chunk, no error, no panic - on the introspection calls and on
    a full read."""
    fn = next((s for s in shapes if s.name == "flatnum"), None)
    if fn is None:
        return 0, 0

    def hist(n, m64):
        ops = []
        for g in range(n):
            ops += ["G 2 I%d I%d" % (g, g)] * (64 if g < m64 else 1) + ["W"]
        return ops
    checked = hit = 0
    for bound, ns in ((4096, range(60, 68)), (65536, range(1015, 1030))):
        cands = [(n, m) for n in ns for m in range(0, 24)]
        ws = [Fm.Workload(fn, 0, 1000, hist(n, m), "footer-size") for n, m in cands]
        impl, _, _, _ = C.run_cases(Fm.shape_lines(shapes) + [w.line("w%d" % i) for i, w in enumerate(ws)], "C16-grid", impl_cmd=[runner], model_lines=[])
        by_len = {}
        for i, (n, m) in enumerate(cands):
            pw = Fm.parse_write(impl.get("w%d" % i))
            if not pw or "1" in pw[0]:
                chk.fail("footer-size|%d|%d|write" % (n, m), "writing %d row groups failed: %s" % (n, (impl.get("w%d" % i) or "")[:100]), {"row_groups": n, "with_64_records": m})
                continue
            f = b"".join(pw[1])
            by_len.setdefault(int.from_bytes(f[-8:-4], "little"), (n, m, f))
        near = [L for L in sorted(by_len) if bound - 12 <= L <= bound + 3]
        if tier == "quick":
            near = near[-6:]
        lines, rlines = [], Fm.shape_lines(shapes)
        for L in near:
            n, m, f = by_len[L]
            lines.append("i%d introspect %s" % (L, C.hexs(f)))
            rlines.append("r%d read flatnum %s plain" % (L, C.hexs(f)))
        if not near:
            continue
        d0 = os.path.join(C.WORK, "cases")
        with open(os.path.join(d0, "C16-boundary.txt"), "w") as fh:
            fh.write("\n".join(lines) + "\n")
        rc, out, err = C.run([os.path.join(C.BIN, "corehar"), "run", os.path.join(d0, "C16-boundary.txt")], timeout=900)
        intro = dict(l.split(" ", 1) for l in out.splitlines() if " " in l)
        with open(os.path.join(d0, "C16-boundary-read.txt"), "w") as fh:
            fh.write("\n".join(rlines) + "\n")
        rc, out, err = C.run([runner, os.path.join(d0, "C16-boundary-read.txt")], timeout=900)
        reads = dict(l.split(" ", 1) for l in out.splitlines() if " " in l)
        for L in near:
            n, m, f = by_len[L]
            rows = 64 * m + (n - m)
            a = intro.get("i%d" % L) or ""
            ra = Fm.parse_read(reads.get("r%d" % L))
            checked += 1
            hit += 1 if bound - 8 <= L <= bound else 0
            chk.count(("footer-size", L))
            what = None
            if not a.startswith("META "):
                what = "introspection gives %s" % (a[:100] or "nothing")
            elif " rows=%d " % rows not in a or a.count(" rg:") != n or " HEADERS %d " % (2 * n) not in a or "ERR" in a or a.split(" ATOFFSET", 1)[1].count(" n1 ") + a.endswith(" n1") < 0:
                what = "introspection reports rows/row groups/page headers other than %d/%d/%d: %s..." % (rows, n, 2 * n, a[:80])
            elif a.split(" ATOFFSET", 1)[1].split().count("n1") != 2 * n:
                what = "PageHeadersAtOffset does not list one header for each of the %d chunks" % (2 * n)
            elif ra is None or ra["status"] != "OK" or int(ra["rows"]) != rows or int(ra["nexts"]) != rows:
                what = "reading the file gives %s" % (reads.get("r%d" % L) or "")[:100]
            if what:
                chk.fail("footer-size|%d" % L, "file of %d row groups (%d with 64 records) whose footer is %d bytes long: %s" % (n, m, L, what), {"row_groups": n, "with_64_records": m, "footer_length": L})
    return checked, hit


def run(chk, st, tier):
    rng = random.Random(chk.seed)
    shapes, runner = Fm.get_portfolio(chk)
    if not runner:
        return
    files = R.make_files(chk, runner, shapes, rng, 140 if tier == "quick" else 1500, maxrecs=10, pages=(1, 2, 3, 7, 1000), name="C16-files")
    # string values (hence page-header statistics) beyond 1 KiB and 64 KiB
    lw = Fm.long_string_workloads(rng, shapes, sizes=(1100, 3000) if tier == "quick" else (1100, 3000, 70000))
    if lw:
        li, lm, _, _ = C.run_cases(Fm.shape_lines(shapes) + [w.line("w%d" % i) for i, w in enumerate(lw)], "C16-long", impl_cmd=[runner])
        for i, w in enumerate(lw):
            pw = Fm.parse_write(li.get("w%d" % i))
            if li.get("w%d" % i) != lm.get("w%d" % i):
                chk.broke("correspondence:C16", "writing %s differs between implementation and model" % (w.describe(),))
            if pw and "1" not in pw[0]:
                files.append((w, b"".join(pw[1])))
    # conformant files of another writer: file_offset conventions other than the library's (0, end of chunk), statistics in
    # either form, created_by, key/value metadata ... - the introspection calls must report them as they are
    from . import foreign as Fo
    fcases = []
    for k in range(30 if tier == "quick" else 300):
        sh = shapes[k % len(shapes)]
        fcases.append(("f%d" % k, sh, Fo.gen_file_choice(rng), Fo.gen_batches(rng, sh, maxrecs=5 if sh.name != "flat24" else 3)))
    ffiles, fe = Fo.make_files(shapes, fcases, "C16-foreign")
    if fe[0] != 0:
        chk.broke("machinery:C16", "foreign writer failed: %s" % (fe[1],))
    for ident, sh, fc, b in fcases:
        if ident in ffiles:
            files.append((Fm.Workload(sh, 0, 0, [x for batch in b for x in batch + ["W"]], "foreign:" + Fo.file_choice_tokens(fc)[:60]), ffiles[ident]))
    lines = []
    for i, (w, f) in enumerate(files):
        lines.append("i%d introspect %s" % (i, C.hexs(f)))
        lines.append("v%d introspect-view %s" % (i, C.hexs(f)))
    impl, model, e1, e2 = C.run_cases(lines, "C16")
    if e1[0] != 0 or e2[0] != 0:
        chk.broke("correspondence:C16", "harness rc=%s %s / driver rc=%s %s" % (e1[0], e1[1], e2[0], e2[1]))
    mism = 0
    ok = 0
    headers = 0
    for i, (w, f) in enumerate(files):
        a = impl.get("i%d" % i)            # the library's introspection calls
        m = model.get("i%d" % i)           # the model of those calls
        v = model.get("v%d" % i)           # the independent validator's walk
        chk.count((w.shape.name, f), nontrivial=len(w.batches()) > 0)
        key = "%s|c%d|p%d|%s" % (w.shape.name, w.codec, w.max, w.history())
        if a != m:
            mism += 1
            if mism <= 3:
                chk.broke("correspondence:C16", "%s: library reports %s..., model of the calls %s..." % (w.describe(), (a or "")[:80], (m or "")[:80]))
        if v is None or v.startswith("INVALID"):
            chk.broke("oracle:C16", "validator rejects the file of %s: %s" % (w.describe(), v))
            continue
        if a != v:
            ta, tv = (a or "").split(), v.split()
            j = next((k for k, (x, y) in enumerate(zip(ta, tv)) if x != y), min(len(ta), len(tv)))
            chk.fail(key, "%s: introspection differs from an independent walk of the file at item %d: library %s, file %s" % (w.describe(), j, " ".join(ta[j:j + 2]), " ".join(tv[j:j + 2])),
                     dict(w.replay(), file=C.hexs(f)[:20000]))
        else:
            ok += 1
            headers += a.count(":") and int(a.split(" HEADERS ")[1].split()[0]) if " HEADERS " in a else 0
    bchecked, bhit = boundary_files(chk, runner, shapes, tier)
    chk.coverage["footer_size_boundary_files"] = bchecked
    chk.coverage["footer_sizes_within_8_bytes_below_a_power_of_two"] = bhit
    chk.coverage["files"] = len(files)
    chk.coverage["files_reported_exactly"] = ok
    chk.coverage["page_headers_compared"] = headers
    chk.coverage["model_vs_impl_mismatches"] = mism
    if files:
        chk.sample({"file": files[0][0].describe(), "library": (impl.get("i0") or "")[:200]})
    chk.coverage["rule"] = ("portfolio files (random histories, page sizes {1,2,3,7,1000}, 3 codecs; plus files whose string values and statistics exceed 1 KiB / 64 KiB, plus conformant files of the independent foreign writer with its file_offset / statistics / metadata conventions): parquet.ReadMetaData, PageHeaders and PageHeadersAtOffset (per chunk) on the real bytes, compared field by field with "
                            "(a) the footer and the page headers the extracted independent validator finds by walking the file, and (b) the Coq model of the three calls. Plus files of ~64 / ~1020 row groups whose footer length lies within 12 bytes below to 3 above 4096 / 65536 (found by writing a grid with the real writer), checked against what their construction implies (model too slow at this many row groups). distinct = distinct files; non-trivial = at least one row group.")
    chk.coverage["explanation"] = "see coq/props/C16.v."
    chk.assumptions += ['validator walk is independent of parquet.PageHeaders; thrift model tested against the library']
