"""C16 - introspection calls report exactly what is in the file."""
import os
import random

from . import common as C
from . import files as Fm
from . import readmodes as R


def run(chk, st, tier):
    rng = random.Random(chk.seed)
    shapes, runner = Fm.get_portfolio(chk)
    if not runner:
        return
    files = R.make_files(chk, runner, shapes, rng, 140 if tier == "quick" else 1500, maxrecs=10, pages=(1, 2, 3, 7, 1000), name="C16-files")
    # string values (hence page-header statistics) beyond 1 KiB and 64 KiB
    lw = Fm.long_string_workloads(rng, shapes, sizes=(1100, 3000) if tier == "quick" else (1100, 3000, 70000))
    if lw:
        li, lm, _, _ = C.run_cases(Fm.shape_lines(shapes) + [w.line("w%d" % i) for i, w in enumerate(lw)], "C16-long", impl_cmd=[runner])
        for i, w in enumerate(lw):
            pw = Fm.parse_write(li.get("w%d" % i))
            if li.get("w%d" % i) != lm.get("w%d" % i):
                chk.broke("correspondence:C16", "writing %s differs between implementation and model" % (w.describe(),))
            if pw and "1" not in pw[0]:
                files.append((w, b"".join(pw[1])))
    lines = []
    for i, (w, f) in enumerate(files):
        lines.append("i%d introspect %s" % (i, C.hexs(f)))
        lines.append("v%d introspect-view %s" % (i, C.hexs(f)))
    impl, model, e1, e2 = C.run_cases(lines, "C16")
    if e1[0] != 0 or e2[0] != 0:
        chk.broke("correspondence:C16", "harness rc=%s %s / driver rc=%s %s" % (e1[0], e1[1], e2[0], e2[1]))
    mism = 0
    ok = 0
    headers = 0
    for i, (w, f) in enumerate(files):
        a = impl.get("i%d" % i)            # the library's introspection calls
        m = model.get("i%d" % i)           # the model of those calls
        v = model.get("v%d" % i)           # the independent validator's walk
        chk.count((w.shape.name, f), nontrivial=len(w.batches()) > 0)
        key = "%s|c%d|p%d|%s" % (w.shape.name, w.codec, w.max, w.history())
        if a != m:
            mism += 1
            if mism <= 3:
                chk.broke("correspondence:C16", "%s: library reports %s..., model of the calls %s..." % (w.describe(), (a or "")[:80], (m or "")[:80]))
        if v is None or v.startswith("INVALID"):
            chk.broke("oracle:C16", "validator rejects the file of %s: %s" % (w.describe(), v))
            continue
        if a != v:
            ta, tv = (a or "").split(), v.split()
            j = next((k for k, (x, y) in enumerate(zip(ta, tv)) if x != y), min(len(ta), len(tv)))
            chk.fail(key, "%s: introspection differs from an independent walk of the file at item %d: library %s, file %s" % (w.describe(), j, " ".join(ta[j:j + 2]), " ".join(tv[j:j + 2])),
                     dict(w.replay(), file=C.hexs(f)[:20000]))
        else:
            ok += 1
            headers += a.count(":") and int(a.split(" HEADERS ")[1].split()[0]) if " HEADERS " in a else 0
    chk.coverage["files"] = len(files)
    chk.coverage["files_reported_exactly"] = ok
    chk.coverage["page_headers_compared"] = headers
    chk.coverage["model_vs_impl_mismatches"] = mism
    if files:
        chk.sample({"file": files[0][0].describe(), "library": (impl.get("i0") or "")[:200]})
    chk.coverage["rule"] = ("portfolio files (random histories, page sizes {1,2,3,7,1000}, 3 codecs; plus files whose string values and statistics exceed 1 KiB / 64 KiB): parquet.ReadMetaData, PageHeaders and PageHeadersAtOffset (per chunk) on the real bytes, compared field by field with "
                            "(a) the footer and the page headers the extracted independent validator finds by walking the file, and (b) the Coq model of the three calls. distinct = distinct files; non-trivial = at least one row group.")
    chk.coverage["explanation"] = "see coq/props/C16.v."
    chk.assumptions += ['validator walk is independent of parquet.PageHeaders; thrift model tested against the library']
