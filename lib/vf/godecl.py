"""Go struct declarations as data (for C14/C15): Go source text and the tokens
of the Coq model's [Parse.decls]."""
import copy

from . import shapes as S


def hx(s):
    return s.encode().hex() if s else "-"


# gotype: ("b", name) | ("p", g) | ("s", g) | ("m", k, v) | ("c", g) | ("i",) | ("f", [fdecl]) | ("t", [fdecl])
# fdecl: {"names": [..], "type": gotype, "tag": str|None}

def go_type(g):
    k = g[0]
    if k == "b":
        return g[1]
    if k == "p":
        return "*" + go_type(g[1])
    if k == "s":
        return "[]" + go_type(g[1])
    if k == "m":
        return "map[%s]%s" % (go_type(g[1]), go_type(g[2]))
    if k == "c":
        return "chan " + go_type(g[1])
    if k == "i":
        return "interface{}"
    if k == "f":
        return "func(%s)" % ", ".join("%s %s" % (" ".join(f["names"]) if f["names"] else "", go_type(f["type"])) for f in g[1])
    if k == "t":
        return "struct { %s }" % "; ".join(go_field(f) for f in g[1])
    raise ValueError(g)


def go_field(f):
    # other keys of the struct tag (json, xml, ...) before / after the parquet key: they do not concern parquetgen
    pre, post = f.get("tagprefix", ""), f.get("tagsuffix", "")
    inner = pre + ('parquet:"%s"' % f["tag"] if f["tag"] is not None else "") + post
    tag = " `%s`" % inner.strip() if inner.strip() else ""
    return "%s %s%s" % (", ".join(f["names"]), go_type(f["type"]), tag) if f["names"] else "%s%s" % (go_type(f["type"]), tag)


def go_source(pkg, decls):
    out = ["package %s\n" % pkg]
    for name, fs in decls:
        out.append("type %s struct {\n%s\n}\n" % (name, "\n".join("\t" + go_field(f) for f in fs)))
    return "\n".join(out)


def type_tokens(g):
    k = g[0]
    if k == "b":
        return ["b", hx(g[1])]
    if k in ("p", "s", "c"):
        return [k] + type_tokens(g[1])
    if k == "m":
        return ["m"] + type_tokens(g[1]) + type_tokens(g[2])
    if k == "i":
        return ["i"]
    if k in ("f", "t"):
        out = [k, str(len(g[1]))]
        for f in g[1]:
            out += field_tokens(f)
        return out
    raise ValueError(g)


def field_tokens(f):
    return [str(len(f["names"]))] + [hx(n) for n in f["names"]] + type_tokens(f["type"]) + [hx(f["tag"]) if f["tag"] is not None else "NOTAG"]


def decl_tokens(decls):
    out = ["d", str(len(decls))]
    for name, fs in decls:
        out += [hx(name), str(len(fs))]
        for f in fs:
            out += field_tokens(f)
    return " ".join(out)


def decls_of_shape(shape):
    """Root first, nested types T1.. in the order shapes.Shape.go_source numbers them"""
    decls = []
    counter = [0]

    def body(fs):
        out = []
        for f in fs:
            if f.is_leaf():
                base = ("b", f.typ)
            else:
                counter[0] += 1
                tname = ("E%d" if f.embedded else "T%d") % counter[0]
                idx = len(decls)
                decls.append(None)
                decls[idx] = (tname, body(f.typ))
                base = ("b", tname)
            if not f.is_leaf() and f.embedded:
                out.append({"names": [], "type": base, "tag": None})
            else:
                ty = base if f.rep == "req" else (("p", base) if f.rep == "opt" else ("s", base))
                out.append({"names": [f.name], "type": ty, "tag": getattr(f, "col", None)})
        return out
    root = body(shape.fields)
    return [("Root", root)] + decls


EXCLUDED_FORMS = [
    {"names": ["hidden"], "type": ("b", "int32"), "tag": None},
    {"names": ["_pad"], "type": ("b", "uint64"), "tag": None},
    {"names": ["anon"], "type": ("t", [{"names": ["X"], "type": ("b", "int32"), "tag": None}]), "tag": None},
    {"names": ["Skip"], "type": ("t", [{"names": ["Y"], "type": ("b", "int32"), "tag": None}]), "tag": "-"},
    {"names": ["cb"], "type": ("f", [{"names": ["A"], "type": ("b", "int32"), "tag": None}]), "tag": None},
    {"names": ["Cb2"], "type": ("f", [{"names": ["R"], "type": ("b", "int64"), "tag": None}]), "tag": "-"},
    {"names": ["M"], "type": ("m", ("b", "string"), ("b", "int32")), "tag": "-"},
    {"names": ["Ch"], "type": ("c", ("b", "int32")), "tag": "-"},
    {"names": ["P"], "type": ("p", ("b", "int32")), "tag": "-"},
    {"names": ["Sl"], "type": ("s", ("b", "string")), "tag": "-"},
    {"names": ["If"], "type": ("i",), "tag": "-"},
    {"names": ["lower"], "type": ("s", ("p", ("b", "float64"))), "tag": "x"},
    # the dash tag next to other keys of the struct tag
    {"names": ["Secret"], "type": ("b", "string"), "tag": "-", "tagprefix": 'json:"-" '},
    {"names": ["Pw"], "type": ("p", ("b", "string")), "tag": "-", "tagprefix": 'json:"password,omitempty" ', "tagsuffix": ' xml:"pw,attr"'},
    {"names": ["Note"], "type": ("s", ("b", "int64")), "tag": "-", "tagsuffix": ' json:"note"'},
    # an embedded struct that is itself excluded by the dash tag (its declaration is added with it)
    {"names": [], "type": ("b", "Audit"), "tag": "-",
     "extra_decls": [("Audit", [{"names": ["Who"], "type": ("b", "string"), "tag": None}, {"names": ["Rev"], "type": ("b", "int32"), "tag": None}])]},
    # an embedded struct of unexported type
    {"names": [], "type": ("b", "hiddenBase"), "tag": None,
     "extra_decls": [("hiddenBase", [{"names": ["Q"], "type": ("b", "int64"), "tag": None}])]},
]


def decorate(decls, tname, pos, field):
    out = copy.deepcopy(decls)
    f = {k: v for k, v in copy.deepcopy(field).items() if k != "extra_decls"}
    for i, (n, fs) in enumerate(out):
        if n == tname:
            fs.insert(min(pos, len(fs)), f)
    for d in field.get("extra_decls", []):
        if d[0] not in [n for n, _ in out]:
            out.append(copy.deepcopy(d))
    return out


def embed(decls, tname, ename, i, k):
    out = []
    for n, fs in copy.deepcopy(decls):
        if n == tname:
            run = fs[i:i + k]
            out.append((n, fs[:i] + [{"names": [], "type": ("b", ename), "tag": None}] + fs[i + k:]))
            out.append((ename, run))
        else:
            out.append((n, fs))
    return out


def embed_reuse(decls, tname, i, k):
    """replace fields [i, i+k) of [tname] by an embedded struct that is ALREADY declared (and used
    elsewhere as a named field) when one with exactly these fields exists; None otherwise"""
    fs = dict(decls)[tname]
    run = fs[i:i + k]
    for n2, fs2 in decls:
        if n2 != tname and fs2 == run:
            out = []
            for n, f in copy.deepcopy(decls):
                if n == tname:
                    out.append((n, f[:i] + [{"names": [], "type": ("b", n2), "tag": None}] + f[i + k:]))
                else:
                    out.append((n, f))
            return out
    return None


def with_other_tag_keys(decls):
    """every field gets other struct-tag keys around its parquet key (or instead of it when it has none)"""
    out = []
    for n, fs in copy.deepcopy(decls):
        for k, f in enumerate(fs):
            if f["names"]:
                f["tagprefix"] = 'json:"%s,omitempty" ' % f["names"][0].lower() if k % 2 == 0 else 'db:"c%d" ' % k
                f["tagsuffix"] = ' xml:"%s"' % f["names"][0] if k % 3 == 0 else ""
        out.append((n, fs))
    return out
