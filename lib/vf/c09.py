"""C09 - a failed write to the destination is always reported."""
import itertools
import random

from . import common as C
from . import files as Fm
from . import shapes as S

LEVEL = "proof"


def run(chk, st, tier):
    rng = random.Random(chk.seed)
    shapes, runner = Fm.get_portfolio(chk)
    if not runner:
        return
    use = [s for s in shapes if s.name in ("opt3", "boolopt", "reqnest", "document", "embroot")] or shapes
    pools = {s.name: [S.gen_value(rng, s.model_fields(), maxlist=2) for _ in range(3)] for s in use}
    ws = []
    maxlen = 5 if tier == "quick" else 7
    k = 0
    for n in range(0, maxlen + 1):
        for h in itertools.product("AW", repeat=n):
            if tier == "quick" and n == maxlen and k % 2:
                k += 1
                continue
            sh = use[k % len(use)]
            k += 1
            ops = [("W" if c == "W" else pools[sh.name][i % 3]) for i, c in enumerate(h)]
            ws.append(Fm.Workload(sh, k % 3, 1 + k % 2, ops, "exhaustive"))
    # pages whose (compressed) data exceeds 64 KiB, and values beyond 64 KiB: sinks are then written in large single calls
    ws += Fm.big_workloads(shapes, codecs=(0, 1) if tier == "quick" else (0, 1, 2), plans=((10000, 12000),))
    ws += [w for w in Fm.long_string_workloads(rng, shapes, sizes=(70000,)) if w.shape.name == "person"][:1 if tier == "quick" else 3]
    # fault-free pass to learn the number of sink writes
    lines = Fm.shape_lines(shapes) + [w.line("w%d" % i) for i, w in enumerate(ws)]
    impl, model, e1, e2 = C.run_cases(lines, "C09-base", impl_cmd=[runner])
    flines = Fm.shape_lines(shapes)
    glines = []
    plan = []
    for i, w in enumerate(ws):
        pw = Fm.parse_write(impl.get("w%d" % i))
        pm = Fm.parse_write(model.get("w%d" % i))
        if impl.get("w%d" % i) != model.get("w%d" % i):
            chk.broke("correspondence:C09", "fault-free run of %s differs between implementation and model" % (w.describe(),))
        n = len(pm[1]) if pm else (len(pw[1]) if pw else 0)
        for kf in range(n):
            flines.append(w.line("f%d_%d" % (i, kf), failat=kf))
            plan.append((i, kf))
            if w.tag == "exhaustive":
                # the same fault reported by a sink that took every byte: Write returns (len(p), err)
                glines.append(w.line("g%d_%d" % (i, kf), failat=1000000 + kf))
    impl_f, model_f, e1, e2 = C.run_cases(flines + glines, "C09-faults", impl_cmd=[runner], model_lines=flines)
    if e1[0] != 0 or e2[0] != 0:
        chk.broke("correspondence:C09", "harness rc=%s %s / driver rc=%s %s" % (e1[0], e1[1], e2[0], e2[1]))
    mism = 0
    reported = 0
    calls = {"new": 0, "write": 0, "close": 0}
    for (i, kf) in plan:
        w = ws[i]
        a, b = impl_f.get("f%d_%d" % (i, kf)), model_f.get("f%d_%d" % (i, kf))
        chk.count((w.shape.name, w.codec, w.max, w.history(), kf))
        key = "%s|c%d|p%d|%s|k=%d" % (w.shape.name, w.codec, w.max, w.history(), kf)
        pa = Fm.parse_write(a)
        if pa is None:
            chk.fail(key, "%s with the sink failing its write #%d: %s" % (w.describe(), kf, (a or "no result")[:120]), dict(w.replay(), fail_at=kf))
            continue
        flags = pa[0]
        if "1" not in flags:
            chk.fail(key, "%s: the sink failed its write #%d but no API call returned an error (calls: %s)" % (w.describe(), kf, flags), dict(w.replay(), fail_at=kf))
            continue
        ag = impl_f.get("g%d_%d" % (i, kf))
        if ag is not None:
            pg = Fm.parse_write(ag)
            if pg is None or "1" not in pg[0]:
                chk.fail(key + "|full-length", "%s: the sink took every byte of its write #%d but returned an error, and no API call returned an error (calls: %s)" % (w.describe(), kf, pg[0] if pg else (ag or "")[:80]),
                         dict(w.replay(), fail_at=kf, sink="returns (len(p), err)"))
                continue
            if pg[0] != flags:
                chk.fail(key + "|full-length", "%s: sink write #%d failing with (len(p), err) is reported by another call (%s) than with (0, err) (%s)" % (w.describe(), kf, pg[0], flags), dict(w.replay(), fail_at=kf))
                continue
        reported += 1
        pos = flags.index("1")
        calls["new" if pos == 0 else ("close" if pos == len(w.ops) + 1 else "write")] += 1
        if a != b:
            mism += 1
            pb = Fm.parse_write(b)
            if pb and pb[0] != flags:
                # the error surfaced in a different call than the one during which the write failed
                chk.fail(key, "%s: sink write #%d failed during API call %d (model) but the error was returned by call %d" % (w.describe(), kf, pb[0].index("1") if "1" in pb[0] else -1, pos),
                         dict(w.replay(), fail_at=kf))
            elif mism <= 3:
                chk.broke("correspondence:C09", "%s k=%d: writes before the fault differ between implementation and model" % (w.describe(), kf))
    chk.coverage["workloads"] = len(ws)
    chk.coverage["fault_positions"] = len(plan)
    chk.coverage["faults_reported_by_the_right_call"] = reported - mism
    chk.coverage["error_surfaced_in"] = calls
    chk.coverage["model_vs_impl_mismatches"] = mism
    chk.coverage["exhaustive"] = True
    if plan:
        i, kf = plan[len(plan) // 2]
        chk.sample({"workload": ws[i].describe(), "fail_at_sink_write": kf, "implementation": (impl_f.get("f%d_%d" % (i, kf)) or "")[:80], "model": (model_f.get("f%d_%d" % (i, kf)) or "")[:80]})
    chk.coverage["rule"] = ("every Add/Write history up to length %d (quick: half of the longest) over 5 shapes, 3 codecs, page sizes 1..2, plus numeric files with 80 KB pages and a file with 70 KB string values; for each, EVERY index k of the sink Write call that fails (returning (0, err), and for the small histories also (len(p), err)) (k = 0 .. number of sink writes - 1); "
                            "the real writer's per-call error flags and the writes that reached the sink are compared with the model's (run_fault over the model's sink-write sequence). distinct = distinct (workload,k)." % maxlen)
    chk.coverage["explanation"] = "sink_fault_reported / run_fault_hit (coq/props/C09.v): in the model every fault is reported by the call in which it happens; the enumeration ties the model's sink-write sequence and error propagation to the code."
    chk.assumptions += ['error propagation in the model is by construction; the enumeration over every k is what ties it to the code', 'a sink that returns an error has written nothing (the harness sink returns 0, err)']


def replay(chk, st, data):
    shapes, runner = Fm.get_portfolio(chk)
    if not runner:
        return
    sh = next((x for x in shapes if x.name == data.get("shape")), None)
    if sh is None:
        chk.broke("replay", "unknown shape in replay file")
        return
    w = Fm.Workload(sh, int(data["codec"]), int(data["page_size"]), list(data["ops"]), "replay")
    kf = int(data.get("fail_at", 0))
    lines = Fm.shape_lines(shapes) + [w.line("f", failat=kf)]
    impl, model, _, _ = C.run_cases(lines, "C09-replay", impl_cmd=[runner])
    a, b = impl.get("f"), model.get("f")
    chk.count(("replay", kf))
    chk.count(("replay-marker",))
    pa = Fm.parse_write(a)
    if pa is None or "1" not in pa[0]:
        chk.fail("replay|k=%d" % kf, "%s: the sink failed its write #%d but no API call returned an error (%s)" % (w.describe(), kf, (a or "")[:80]), dict(w.replay(), fail_at=kf))
    elif a != b:
        chk.broke("correspondence:C09", "replayed case differs from the model: %s vs %s" % ((a or "")[:80], (b or "")[:80]))
    chk.sample({"replayed": w.describe(), "fail_at": kf, "implementation": (a or "")[:100]})
    chk.coverage["rule"] = "replay of one stored (workload, failing sink write index)"
