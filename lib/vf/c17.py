"""C17 - bit-packing of 8-value groups."""
import os
import random

from . import common as C


def unit_cases():
    """All single-slot vectors and all pairs of slots: the vectors the
    linearity proof reduces to, evaluated on implementation and model."""
    cases = []
    for w in (1, 2, 3, 4):
        for i in range(8):
            for v in range(1, 1 << w):
                vals = [0] * 8
                vals[i] = v
                cases.append(("pack", w, vals))
        for i in range(8):
            for j in range(i + 1, 8):
                vals = [0] * 8
                vals[i] = (1 << w) - 1
                vals[j] = 1
                cases.append(("pack", w, vals))
        for i in range(w):
            for b in range(1, 256):
                bs = [0] * w
                bs[i] = b
                cases.append(("unpack", w, bs))
    return cases


def run(chk, st, tier):
    rng = random.Random(chk.seed)
    cases = unit_cases()
    # all groups for w <= 2 (quick: w = 1 and a slice of w = 2), random for the rest
    for x in range(256):
        cases.append(("pack", 1, [(x >> i) & 1 for i in range(8)]))
    n2 = 65536 if tier == "thorough" else 4096
    for x in (range(65536) if tier == "thorough" else rng.sample(range(65536), n2)):
        cases.append(("pack", 2, [(x >> (2 * i)) & 3 for i in range(8)]))
    nrand = 100000 if tier == "thorough" else 6000
    for _ in range(nrand):
        w = rng.choice((3, 4))
        cases.append(("pack", w, [rng.randrange(1 << w) for _ in range(8)]))
    for _ in range(nrand // 4):
        w = rng.choice((1, 2, 3, 4))
        # uint8 inputs above the width: pack must mask
        cases.append(("pack", w, [rng.randrange(256) for _ in range(8)]))
        cases.append(("unpack", w, [rng.randrange(256) for _ in range(w)]))
    lines = []
    for k, (kind, w, xs) in enumerate(cases):
        if kind == "pack":
            lines.append("%d pack %d 8 %s" % (k, w, " ".join(map(str, xs))))
        else:
            lines.append("%d unpack %d %s" % (k, w, bytes(xs).hex()))
    impl, model, e1, e2 = C.run_cases(lines, "C17")
    if e1[0] != 0 or e2[0] != 0:
        chk.broke("correspondence:C17", "harness rc=%s %s / driver rc=%s %s" % (e1[0], e1[1], e2[0], e2[1]))
    mism = 0
    for k, (kind, w, xs) in enumerate(cases):
        a, b = impl.get(str(k)), model.get(str(k))
        chk.count((kind, w, tuple(xs)), nontrivial=any(xs))
        if a != b or a is None:
            mism += 1
            if mism <= 3:
                chk.broke("correspondence:C17", "%s w=%d %s: implementation=%s model=%s" % (kind, w, xs, a, b))
            # is it a property failure on the implementation?  (oracle: spec layout)
            if kind == "pack" and a is not None and not a.startswith("PANIC"):
                word = 0
                for i, v in enumerate(xs):
                    word |= (v & ((1 << w) - 1)) << (w * i)
                spec = word.to_bytes(w, "little").hex()
                if a != spec:
                    chk.fail("pack|%d|%s" % (w, xs), "bitpack.Pack(width=%d, %s) = %s, specification layout is %s" % (w, xs, a, spec),
                             {"kind": "pack", "width": w, "vals": xs, "got": a, "spec": spec})
            elif a is not None and a.startswith("PANIC"):
                chk.fail("%s|%d|%s" % (kind, w, xs), "%s(width=%d, %s) panics: %s" % (kind, w, xs, a), {"kind": kind, "width": w, "input": xs, "got": a})
    chk.sample({"case": lines[0], "implementation": impl.get("0"), "model": model.get("0")})
    chk.sample({"case": lines[len(lines) // 2], "implementation": impl.get(str(len(lines) // 2)), "model": model.get(str(len(lines) // 2))})
    chk.coverage["model_vs_impl_cases"] = len(cases)
    chk.coverage["model_vs_impl_mismatches"] = mism
    # failing-input search / supporting exploration: brute force on the implementation
    # quick: every group of width <= 3 and a 1/257 strided sample of width 4; thorough - or whenever a proof
    # obligation or the correspondence no longer checks (verdict rule: search for a failing input) - every group
    full = tier == "thorough" or bool(chk.broken)
    maxw = 4
    rc, out, err = C.run([os.path.join(C.BIN, "corehar"), "brute17", "4", "1" if full else "257"], timeout=3600)
    groups = 0
    for l in out.splitlines():
        if l.startswith("FAIL "):
            chk.fail("brute|" + l[5:80], "exhaustive search on the implementation: " + l[5:], {"kind": "brute17", "line": l})
        if l.startswith("COUNT"):
            groups = int(l.split("groups=")[1].split()[0])
    if rc not in (0, 1) or not groups:
        chk.broke("search:C17", "brute force did not run: rc=%d %s" % (rc, err[-300:]))
    chk.coverage["implementation_groups_enumerated"] = groups
    chk.coverage["evaluations"] += groups
    chk.coverage["exhaustive"] = full
    chk.coverage["rule"] = ("model-vs-implementation: all single-slot vectors, slot pairs, all width-1 groups, width-2 groups (all in thorough), "
                            "seeded random width-3/4 groups and uint8 inputs above the width; distinct = distinct (kind,width,input) with a non-zero input. "
                            "Separately every 8-tuple and every w-byte group for w<=3, and %s of width 4, is enumerated on the implementation against a 3-line spec (search for a failing input; not the proof)." % ("every group" if full else "a 1/257 strided sample (every group when a proof obligation breaks, and in the thorough tier)"))
    chk.coverage["explanation"] = ("C17_unpack_pack, C17_pack_spec, C17_pack_unpack, C17_pack_masks are proved for all groups about the tables "
                                   "translated from bitpack.go in this run (lor-linearity + vm_compute on the single-slot vectors).")
    if not st["translator_ok"]:
        chk.broke("translator", "bitpack.go is outside the translated fragment: " + st["translator_msg"])
    chk.assumptions += ["translator /verif/go/translator (go/ast; rejects anything outside the uint8 and/or/shift fragment)",
                        "hook parquet.VerifPack/VerifUnpack (build tag verif) are thin wrappers around internal/bitpack"]
