"""C11 - a truncated file is never accepted."""
import hashlib
import random

from . import common as C
from . import files as Fm
from . import readmodes as R
from . import shapes as S


def crafted(chk, runner, shapes):
    """D10: a string value that embeds a complete trailer (footer, length, magic) makes a prefix
    that any footer-last reader accepts.  Built from the real writer's own bytes."""
    sh = next((s for s in shapes if s.name == "opt3"), None)
    if sh is None:
        return None
    lines = Fm.shape_lines([sh]) + ["e write opt3 0 1000 -1 0 0 "]
    impl, _, _, _ = C.run_cases(lines, "C11-empty", impl_cmd=[runner])
    pw = Fm.parse_write(impl.get("e"))
    if not pw:
        return None
    empty = b"".join(pw[1])
    trailer = empty[4:]                    # footer of a file with no row group, its length, "PAR1"
    rec = "G 2 G 2 G 2 I5 S%s I1 I7" % trailer.hex()   # A{B{C,D:string},E}, Z
    lines = Fm.shape_lines([sh]) + ["c write opt3 0 1000 -1 0 2 A %s W" % rec]
    impl, _, _, _ = C.run_cases(lines, "C11-crafted", impl_cmd=[runner])
    pw = Fm.parse_write(impl.get("c"))
    if not pw:
        return None
    f = b"".join(pw[1])
    cut = f.find(trailer) + len(trailer)
    return sh, f, cut


def embedded_files(chk):
    """valid files one of whose string values is itself a complete small file of the same struct (an attachment,
    a nested export), the string column being the last one: every strict prefix is swept like any other file's.
    A prefix that ends with the embedded file's trailer opens through the embedded footer; it must still be
    refused because the page that holds the value is cut.  Returns (shapes, runner, files)."""
    F = S.F
    shs = [S.Shape("idbody", [F("ID", "req", "int64"), F("Body", "req", "string")], desc="required string last"),
           S.Shape("idoptbody", [F("ID", "req", "int64"), F("Body", "opt", "string")], desc="optional string last"),
           S.Shape("idreptags", [F("ID", "req", "int64"), F("Tags", "rep", "string")], desc="repeated string last")]
    st, runner = S.build_set("c11", shs)
    shs = [s for s in shs if st[s.name]["status"] == "ok"]
    if runner is None or not shs:
        chk.broke("build", "runner for the C11 shapes does not build")
        return [], None, []
    out = []
    for sh in shs:
        wrap = (lambda x: "L 1 " + x) if sh.name == "idreptags" else (lambda x: x)
        for codec in (0, 1):
            lines = Fm.shape_lines(shs) + ["i write %s %d 1000 -1 0 2 A G 2 I9 %s W" % (sh.name, codec, wrap("S6162"))]
            impl, _, _, _ = C.run_cases(lines, "C11-inner", impl_cmd=[runner], model_lines=[])
            pw = Fm.parse_write(impl.get("i"))
            if not pw:
                continue
            inner = b"".join(pw[1])
            att = "G 2 I5 " + wrap("S" + inner.hex())
            plain = ["G 2 I%d %s" % (k, wrap("S7a7a")) for k in (1, 2)]
            for pos in range(3):
                recs = plain[:]
                recs.insert(pos, att)
                for mx in (1000, 2):
                    out.append(Fm.Workload(sh, codec, mx, recs + ["W"], "embedded-file@%d" % pos))
            # an embedded file with two row groups inside the second row group of the outer file: the prefix opens,
            # its first row group reads in the constructor, the cut is met by the lazy load of Next
            lines = Fm.shape_lines(shs) + ["j write %s %d 1000 -1 0 4 A G 2 I9 %s W A G 2 I8 %s W" % (sh.name, codec, wrap("S6162"), wrap("S6364"))]
            impl, _, _, _ = C.run_cases(lines, "C11-inner2", impl_cmd=[runner], model_lines=[])
            pw = Fm.parse_write(impl.get("j"))
            if pw:
                att2 = "G 2 I5 " + wrap("S" + b"".join(pw[1]).hex())
                for pos in range(2):
                    recs = [plain[1]]
                    recs.insert(pos, att2)
                    out.append(Fm.Workload(sh, codec, 1000, [plain[0], "W"] + recs + ["W"], "embedded-2rg-file@%d" % pos))
    lines = Fm.shape_lines(shs) + [w.line("w%d" % i) for i, w in enumerate(out)]
    impl, _, _, _ = C.run_cases(lines, "C11-embedded", impl_cmd=[runner], model_lines=[])
    files = []
    for i, w in enumerate(out):
        pw = Fm.parse_write(impl.get("w%d" % i))
        if pw and "1" not in pw[0]:
            files.append((w, b"".join(pw[1])))
    return shs, runner, files


def run(chk, st, tier):
    rng = random.Random(chk.seed)
    shapes, runner = Fm.get_portfolio(chk)
    if not runner:
        return
    small = [s for s in shapes if s.name not in ("flat24", "flatnum")] or shapes
    files = R.make_files(chk, runner, small, rng, 36 if tier == "quick" else 400, maxrecs=6, pages=(1, 2, 1000), name="C11-files")
    lines = Fm.shape_lines(small) + ["p%d prefixes %s %s" % (i, w.shape.name, C.hexs(f)) for i, (w, f) in enumerate(files)]
    impl, _, e1, _ = C.run_cases(lines, "C11", impl_cmd=[runner])
    total = 0
    dist = {"O": 0, "E": 0, "K": 0, "P": 0}
    mlines = Fm.shape_lines(small)
    mexpect = {}
    for i, (w, f) in enumerate(files):
        res = (impl.get("p%d" % i) or "").split()
        if not res or len(res[0]) != len(f):
            chk.broke("oracle:C11", "prefix sweep of %s did not run: %s" % (w.describe(), (impl.get("p%d" % i) or "")[:100]))
            continue
        status = res[0]
        total += len(status)
        for ch in status:
            dist[ch] = dist.get(ch, 0) + 1
        chk.count((w.shape.name, f), n=len(status))
        for cut, ch in enumerate(status):
            if ch in "KP":
                acc = next((x for x in res[2:] if x.startswith("%d:" % cut)), "")
                chk.fail("%s|c%d|p%d|%s|cut-class=%s" % (w.shape.name, w.codec, w.max, w.history(), "accepted" if ch == "K" else "panic"),
                         "%s truncated to %d of %d bytes %s (%s)" % (w.describe(), cut, len(f), "is accepted as a valid file" if ch == "K" else "makes the reader panic", acc),
                         dict(w.replay(), cut=cut, file=C.hexs(f)[:20000]))
                break
        # model vs implementation where the verdict does not depend on the thrift decoder on garbage:
        # shorter than 8 bytes, or a trailer length that points before the start of the file
        for cut in list(range(0, 9)) + rng.sample(range(9, len(f)), min(6, max(0, len(f) - 9))):
            if cut >= len(f):
                continue
            p = f[:cut]
            if cut < 8 or int.from_bytes(p[-8:-4], "little") + 8 > cut:
                ident = "m%d_%d" % (i, cut)
                mlines.append("%s read %s %s plain" % (ident, w.shape.name, C.hexs(p)))
                mexpect[ident] = (status[cut], w, cut)
    # the same sweep over the files with an embedded file (own shapes, own runner)
    eshapes, erunner, efiles = embedded_files(chk)
    if erunner:
        elines = Fm.shape_lines(eshapes) + ["p%d prefixes %s %s" % (i, w.shape.name, C.hexs(f)) for i, (w, f) in enumerate(efiles)]
        eimpl, _, _, _ = C.run_cases(elines, "C11-embedded-sweep", impl_cmd=[erunner], model_lines=[])
        for i, (w, f) in enumerate(efiles):
            res = (eimpl.get("p%d" % i) or "").split()
            if not res or len(res[0]) != len(f):
                chk.broke("oracle:C11", "prefix sweep of %s did not run: %s" % (w.describe(), (eimpl.get("p%d" % i) or "")[:100]))
                continue
            total += len(res[0])
            chk.count((w.shape.name, f), n=len(res[0]))
            for ch in res[0]:
                dist[ch] = dist.get(ch, 0) + 1
            for cut, ch in enumerate(res[0]):
                if ch in "KP":
                    acc = next((x for x in res[2:] if x.startswith("%d:" % cut)), "")
                    chk.fail("%s|c%d|p%d|%s|cut-class=%s" % (w.shape.name, w.codec, w.max, w.tag, "accepted" if ch == "K" else "panic"),
                             "%s truncated to %d of %d bytes %s (%s)" % (w.describe(), cut, len(f), "is accepted as a valid file" if ch == "K" else "makes the reader panic", acc),
                             dict(w.replay(), cut=cut, file=C.hexs(f)[:20000]))
                    break
        files_total_extra = len(efiles)
    else:
        files_total_extra = 0
    _, model, _, e2 = C.run_cases(mlines, "C11-model", impl_cmd=["true"])
    mism = 0
    for ident, (ch, w, cut) in mexpect.items():
        m = (model.get(ident) or "").split()[0] if model.get(ident) else None
        want = {"O": "OPENERR", "E": "ERR", "K": "OK", "P": "PANIC"}[ch]
        if m != want:
            mism += 1
            if mism <= 3:
                chk.broke("correspondence:C11", "%s cut at %d: implementation %s, model %s" % (w.describe(), cut, want, m))
    # the crafted witness of the refutation (D10)
    cw = crafted(chk, runner, shapes)
    crafted_note = "not built"
    if cw:
        sh, f, cut = cw
        lines = Fm.shape_lines([sh]) + ["x read opt3 %s plain" % C.hexs(f[:cut]), "y read opt3 %s plain" % C.hexs(f)]
        impl_c, model_c, _, _ = C.run_cases(lines, "C11-crafted-read", impl_cmd=[runner])
        a, b = Fm.strip_read(impl_c.get("x")), model_c.get("x")
        crafted_note = "prefix of %d/%d bytes: implementation %s, model %s" % (cut, len(f), (a or "")[:40], (b or "")[:40])
        if a != b:
            chk.broke("correspondence:C11", "crafted embedded-trailer prefix: implementation %s, model %s" % ((a or "")[:60], (b or "")[:60]))
        if a and a.startswith("OK"):
            chk.fail("C11|crafted:embedded-trailer-in-string-value",
                     "a file whose string value embeds a complete trailer (footer+length+PAR1), cut right after that value (%d of %d bytes), is accepted: %s" % (cut, len(f), a[:60]),
                     {"file": C.hexs(f), "cut": cut, "sha256": hashlib.sha256(f).hexdigest()})
    chk.coverage["files"] = len(files) + files_total_extra
    chk.coverage["prefixes_read"] = total
    chk.coverage["outcomes"] = {"constructor_error": dist["O"], "error_after_next": dist["E"], "accepted": dist["K"], "panic": dist["P"]}
    chk.coverage["model_compared_prefixes"] = len(mexpect)
    chk.coverage["model_vs_impl_mismatches"] = mism
    chk.coverage["crafted_witness"] = crafted_note
    chk.coverage["exhaustive"] = True
    if files:
        chk.sample({"file": files[0][0].describe(), "bytes": len(files[0][1]), "status_per_cut": (impl.get("p0") or "")[:120]})
    chk.coverage["rule"] = ("portfolio files (3 codecs, page sizes 1,2,1000) and 48 files (string column last: required / optional / repeated) with a value that is itself a complete file of the same struct (first/middle/last record): EVERY strict prefix (cut = 0..len-1) read by the real generated reader; it must report an error (constructor or Error()), never accept, never panic. "
                            "Model and implementation are compared on prefixes whose verdict does not depend on the thrift decoder's behaviour on garbage (shorter than 8 bytes; trailer length pointing before the file start) and on the crafted "
                            "embedded-trailer witness. distinct counts files; evaluations counts prefixes.")
    chk.coverage["explanation"] = ("C11_short_rejected / C11_bad_length_rejected are proved; the unconditional statement is false for any footer-last format: C11_refuted (coq/props/C11.v) exhibits a valid file with an accepted strict prefix, "
                                   "replayed here on the real reader as the known finding.")
    chk.assumptions += ['thrift decoding of arbitrary bytes is library behaviour; compared with the model only where the verdict does not depend on it']
